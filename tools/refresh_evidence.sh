#!/bin/sh
# Re-runs the quick tier of every claimed check on the unchanged tree so that the
# committed evidence files describe such a run. Usage: tools/refresh_evidence.sh [ID...]
cd "$(dirname "$0")/.." || exit 2
if [ -n "$(git -C /repo status --porcelain)" ]; then echo "/repo is not clean"; exit 2; fi
ids="$*"
[ -z "$ids" ] && ids=$(python3 -c "import json;print(' '.join(c['property_id'] for c in json.load(open('MANIFEST.json'))['checks']))")
rc=0
for id in $ids; do
  VERIF_SEED=1 ./check "$id" --tier quick | tail -3 || rc=1
done
exit $rc
