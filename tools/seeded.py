#!/usr/bin/env python3
"""Confirms and evaluates seeded changes produced by independent sub-agents.

  tools/seeded.py confirm <candidate-dir> <seeded-id> <property>   # e.g. /tmp/seed/C05/out/A C05-a C05
      1. scratch worktree of /repo (outside /repo and /verif), patch applied: builds, repository suite passes,
         demonstration FAILS; patch removed: demonstration PASSES
      2. on success copies patch.diff, the demonstration and meta.json to /verif/seeded/<seeded-id>/
  tools/seeded.py run [<seeded-id> ...] [--tier quick] [--props C01,C02]
      applies each kept patch to /repo, runs the checks (default: the property it breaks), undoes it straight
      afterwards (git -C /repo checkout -- .) and records which checks caught it in meta.json
"""
import argparse
import json
import os
import re
import shutil
import subprocess
import sys
import tempfile
import time

VERIF = os.path.dirname(os.path.dirname(os.path.abspath(__file__)))
REPO = "/repo"
GOENV = {"GOFLAGS": "-mod=mod", "GOPROXY": "off", "GOSUMDB": "off", "GOTOOLCHAIN": "local"}


def sh(cmd, cwd=None, env=None, timeout=None):
    e = dict(os.environ)
    e.update(GOENV)
    if env:
        e.update(env)
    try:
        p = subprocess.run(cmd, cwd=cwd, env=e, stdout=subprocess.PIPE, stderr=subprocess.STDOUT, timeout=timeout)
        return p.returncode, p.stdout.decode("utf-8", "replace")
    except subprocess.TimeoutExpired as ex:
        return 124, (ex.stdout or b"").decode("utf-8", "replace") + "\n[timeout]"


def demo_files(cand):
    return [f for f in sorted(os.listdir(cand)) if f.endswith(".go")]


def demo_pkg_dir(path):
    """The demo states its package directory in a header comment; fall back to the package clause."""
    src = open(path).read()
    m = re.search(r"^package\s+(\w+)", src, re.M)
    pkg = m.group(1) if m else "gldap_test"
    return "testdirectory" if pkg.startswith("testdirectory") else "."


def confirm(args):
    cand, sid, prop = args.candidate, args.id, args.prop
    patch = os.path.join(cand, "patch.diff")
    demos = demo_files(cand)
    if not os.path.exists(patch) or not demos:
        print("candidate incomplete")
        return 2
    wt = tempfile.mkdtemp(prefix="seedcheck-", dir="/tmp")
    os.rmdir(wt)
    log = []
    ok = False
    try:
        rc, out = sh(["git", "-C", REPO, "worktree", "add", "-q", "--detach", wt, "HEAD"])
        if rc != 0:
            print(out)
            return 2
        rc, out = sh(["git", "-C", wt, "apply", "--whitespace=nowarn", patch])
        log.append(("apply", rc, out[-500:]))
        if rc != 0:
            print("patch does not apply:", out)
            return 1
        touched = sh(["git", "-C", wt, "diff", "--name-only"])[1].split()
        if any(t.endswith("_test.go") or t in ("go.mod", "go.sum", "verif_hooks.go") for t in touched):
            print("patch touches forbidden files:", touched)
            return 1
        rc, out = sh(["go", "build", "./..."], cwd=wt, timeout=600)
        log.append(("build", rc, out[-800:]))
        if rc != 0:
            print("does not build:", out[-800:])
            return 1
        rc, out = sh(["go", "vet", "-tags", "verif", "."], cwd=wt, timeout=600)
        log.append(("build-with-hooks", rc, out[-400:]))
        # the repository's own suite picks its ports by listen-and-close and is known to collide now and then
        # on a busy machine ("address already in use"): require 2 passes out of at most 3 runs
        passes, fails = 0, []
        for i in range(3):
            rc, out = sh(["go", "test", "-vet=off", "-count=1", "./..."], cwd=wt, env={"GOFLAGS": ""}, timeout=1200)
            log.append((f"suite-{i}", rc, out[-800:]))
            if rc == 0:
                passes += 1
            else:
                fails.append(out[-1200:])
            if passes >= 2:
                break
        if passes < 2:
            print("existing suite FAILS with the patch:", fails[-1])
            return 1
        # demo with the patch: must fail
        placed = []
        for d in demos:
            dst = os.path.join(wt, demo_pkg_dir(os.path.join(cand, d)), "zz_seed_" + d if d.endswith("_test.go") else d)
            shutil.copyfile(os.path.join(cand, d), dst)
            placed.append(dst)
        pkgs = sorted({"./" + os.path.relpath(os.path.dirname(p), wt) for p in placed})
        run_re = "|".join(sorted(set(re.findall(r"^func (Test\w+)\(", "\n".join(open(p).read() for p in placed), re.M))))
        tags = set()
        for pth in placed:
            for line in re.findall(r"^//go:build\s+(.*)$", open(pth).read(), re.M):
                for tok in re.findall(r"!?\w+", line):
                    if not tok.startswith("!") and tok not in ("linux", "darwin", "windows", "unix", "amd64", "arm64", "cgo", "race", "go1"):
                        tags.add(tok)
        tags = sorted(tags)
        cmd = ["go", "test", "-vet=off", "-count=1", "-run", "^(" + run_re + ")$"] + (["-tags", ",".join(tags)] if tags else []) + (["-race"] if args.race else []) + pkgs
        rc_with, out_with = sh(cmd, cwd=wt, timeout=1500)
        log.append(("demo-with-patch", rc_with, out_with[-1500:]))
        sh(["git", "-C", wt, "apply", "-R", "--whitespace=nowarn", patch])
        rc_without, out_without = sh(cmd, cwd=wt, timeout=1500)
        log.append(("demo-without-patch", rc_without, out_without[-800:]))
        if rc_with == 0:
            print("demo PASSES with the patch (does not demonstrate):", out_with[-600:])
            return 1
        if rc_without != 0:
            print("demo FAILS without the patch:", out_without[-800:])
            return 1
        ok = True
    finally:
        sh(["git", "-C", REPO, "worktree", "remove", "--force", wt])
        shutil.rmtree(wt, ignore_errors=True)
        sh(["git", "-C", REPO, "worktree", "prune"])
    if ok:
        dst = os.path.join(VERIF, "seeded", sid)
        os.makedirs(dst, exist_ok=True)
        shutil.copyfile(patch, os.path.join(dst, "patch.diff"))
        for d in demos:
            shutil.copyfile(os.path.join(cand, d), os.path.join(dst, d))
        notes = ""
        if os.path.exists(os.path.join(cand, "NOTES.md")):
            notes = open(os.path.join(cand, "NOTES.md")).read()
            shutil.copyfile(os.path.join(cand, "NOTES.md"), os.path.join(dst, "NOTES.md"))
        meta = {
            "id": sid, "breaks_property": prop, "source": "independent sub-agent given only the property text and a scratch worktree",
            "needs_to_manifest": notes.strip()[:1500],
            "confirmed": {
                "how": "scratch worktree of /repo HEAD: patch applies, go build ./..., repository suite passes twice with the patch, demonstration fails with the patch and passes without it",
                "demo_cmd": " ".join(cmd), "race": bool(args.race),
                "demo_with_patch_tail": out_with[-700:], "at": time.strftime("%Y-%m-%dT%H:%M:%SZ", time.gmtime()),
            },
            "checks": {},
        }
        json.dump(meta, open(os.path.join(dst, "meta.json"), "w"), indent=1)
        print(f"CONFIRMED {sid} -> {dst}")
        return 0
    return 1


def rebase(args):
    """Re-bases kept seeded changes whose patch no longer applies to /repo HEAD (after a new fix: commit) with a
    three-way merge in a scratch worktree, re-runs build, suite and demonstration, and rewrites patch.diff."""
    rcs = 0
    for sid in args.ids:
        d = os.path.join(VERIF, "seeded", sid)
        meta = json.load(open(os.path.join(d, "meta.json")))
        patch = os.path.join(d, "patch.diff")
        if sh(["git", "-C", REPO, "apply", "--check", patch])[0] == 0 and not args.force:
            print(f"{sid}: applies as it is")
            continue
        wt = tempfile.mkdtemp(prefix="seedrebase-", dir="/tmp")
        os.rmdir(wt)
        try:
            sh(["git", "-C", REPO, "worktree", "add", "-q", "--detach", wt, "HEAD"])
            rc, out = sh(["git", "-C", wt, "apply", "--3way", "--whitespace=nowarn", patch])
            conflicted = sh(["git", "-C", wt, "diff", "--name-only", "--diff-filter=U"])[1].split()
            if rc != 0 or conflicted:
                print(f"{sid}: CONFLICT ({out.strip()[-300:]}) - needs a manual re-base")
                rcs = 1
                continue
            sh(["git", "-C", wt, "reset", "-q"])
            newdiff = sh(["git", "-C", wt, "diff"])[1]
            rc, out = sh(["go", "build", "./..."], cwd=wt, timeout=600)
            if rc != 0:
                print(f"{sid}: re-based patch does not build: {out[-500:]}")
                rcs = 1
                continue
            passes = 0
            for i in range(3):
                rc, out = sh(["go", "test", "-vet=off", "-count=1", "./..."], cwd=wt, env={"GOFLAGS": ""}, timeout=1200)
                passes += rc == 0
                if passes >= 2:
                    break
            if passes < 2:
                print(f"{sid}: suite fails with the re-based patch: {out[-600:]}")
                rcs = 1
                continue
            demos = demo_files(d)
            placed = []
            for dm in demos:
                dst = os.path.join(wt, demo_pkg_dir(os.path.join(d, dm)), "zz_seed_" + dm if dm.endswith("_test.go") else dm)
                shutil.copyfile(os.path.join(d, dm), dst)
                placed.append(dst)
            cmd = meta["confirmed"]["demo_cmd"].split(" ")
            rc_with, out_with = sh(cmd, cwd=wt, timeout=1500)
            open(os.path.join(wt, ".rebased.diff"), "w").write(newdiff)
            sh(["git", "-C", wt, "apply", "-R", "--whitespace=nowarn", os.path.join(wt, ".rebased.diff")])
            rc_without, out_without = sh(cmd, cwd=wt, timeout=1500)
            if rc_with == 0 or rc_without != 0:
                print(f"{sid}: after the re-base the demonstration gives with={rc_with} without={rc_without}: {out_with[-400:]} // {out_without[-400:]}")
                rcs = 1
                continue
            open(patch, "w").write(newdiff)
            meta["rebased"] = {"onto": sh(["git", "-C", REPO, "rev-parse", "--short", "HEAD"])[1].strip(), "how": "git apply --3way in a scratch worktree; build, repository suite (2 of 3) and demonstration (fails with, passes without) re-run",
                               "at": time.strftime("%Y-%m-%dT%H:%M:%SZ", time.gmtime())}
            json.dump(meta, open(os.path.join(d, "meta.json"), "w"), indent=1)
            print(f"{sid}: REBASED")
        finally:
            sh(["git", "-C", REPO, "worktree", "remove", "--force", wt])
            shutil.rmtree(wt, ignore_errors=True)
            sh(["git", "-C", REPO, "worktree", "prune"])
    return rcs


def run(args):
    global REPO
    if args.repo:
        # a parallel lane: another worktree of /repo, with --check-dir a checkout of /verif whose harness/go.mod
        # replace directive points at that worktree (tools/lanes.sh)
        REPO = args.repo
    ids = args.ids or sorted(os.listdir(os.path.join(VERIF, "seeded")))
    rc, out = sh(["git", "-C", REPO, "status", "--porcelain"])
    if out.strip():
        print("refusing: /repo is not clean\n" + out)
        return 2
    keep = tempfile.mkdtemp(prefix="evidence-keep-", dir=os.path.join(VERIF, ".scratch"))
    shutil.copytree(os.path.join(VERIF, "evidence"), os.path.join(keep, "evidence"))
    try:
        for sid in ids:
            d = os.path.join(VERIF, "seeded", sid)
            mp = os.path.join(d, "meta.json")
            if not os.path.exists(mp):
                continue
            meta = json.load(open(mp))
            props = args.props.split(",") if args.props else [meta["breaks_property"]]
            rc, out = sh(["git", "-C", REPO, "apply", "--whitespace=nowarn", os.path.join(d, "patch.diff")])
            if rc != 0:
                print(f"{sid}: patch no longer applies: {out[-300:]}")
                continue
            try:
                for p in props:
                    t0 = time.time()
                    cdir = args.check_dir or VERIF
                    rc, out = sh([os.path.join(cdir, "check"), p, "--tier", args.tier], cwd=cdir, timeout=7200, env={"VERIF_SEED": str(args.seed), "VERIF_NO_SAVED": "1", "VERIF_REPO": REPO})
                    fps = [l[len("[driver] violation "):][:400] for l in out.splitlines() if l.startswith("[driver] violation")]
                    verdict = {0: "MISSED", 1: "CAUGHT", 2: "INCONCLUSIVE"}.get(rc, f"rc={rc}")
                    meta.setdefault("checks", {})[f"{p}/{args.tier}" + (f"@{args.label}" if args.label else "")] = {
                        "verdict": verdict, "wall_s": round(time.time() - t0, 1), "seed": args.seed,
                        "first_violation": fps[0] if fps else "", "cmd": f"git -C /repo apply seeded/{sid}/patch.diff && ./check {p} --tier {args.tier}; git -C /repo checkout -- .",
                        **({"lane": f"run in a parallel lane: worktree {REPO} of /repo HEAD and a checkout of /verif whose harness builds against it"} if args.repo else {}),
                    }
                    print(f"{sid}: {p}/{args.tier}{'@' + args.label if args.label else ''} {verdict} in {round(time.time() - t0, 1)}s {fps[0][:160] if fps else out.strip().splitlines()[-1][:160] if out.strip() else ''}", flush=True)
            finally:
                sh(["git", "-C", REPO, "checkout", "--", "."])
            json.dump(meta, open(mp, "w"), indent=1)
    finally:
        shutil.rmtree(os.path.join(VERIF, "evidence"), ignore_errors=True)
        shutil.copytree(os.path.join(keep, "evidence"), os.path.join(VERIF, "evidence"))
        shutil.rmtree(keep, ignore_errors=True)
        shutil.rmtree(os.path.join(VERIF, "replays", "found"), ignore_errors=True)
    return 0


def main():
    ap = argparse.ArgumentParser()
    sub = ap.add_subparsers(dest="cmd", required=True)
    c = sub.add_parser("confirm")
    c.add_argument("candidate")
    c.add_argument("id")
    c.add_argument("prop")
    c.add_argument("--race", action="store_true")
    r = sub.add_parser("run")
    r.add_argument("ids", nargs="*")
    r.add_argument("--tier", default="quick")
    r.add_argument("--props", default="")
    r.add_argument("--seed", type=int, default=1)
    r.add_argument("--check-dir", default="", help="run the ./check of another checkout of /verif (e.g. an older commit) and record under --label")
    r.add_argument("--label", default="")
    r.add_argument("--repo", default="", help="apply the patches to this worktree of /repo instead of /repo itself (parallel lanes; needs a --check-dir whose go.mod points at it)")
    b = sub.add_parser("rebase")
    b.add_argument("ids", nargs="+")
    b.add_argument("--force", action="store_true")
    args = ap.parse_args()
    return {"confirm": confirm, "run": run, "rebase": rebase}[args.cmd](args)


if __name__ == "__main__":
    sys.exit(main())
