#!/usr/bin/env python3
"""Regenerates /verif/MANIFEST.json from the table below (single source)."""
import json
import os
import subprocess

VERIF = os.path.dirname(os.path.dirname(os.path.abspath(__file__)))

# id -> (category, technique, level text, level note, design ref)
CHECKS = {
    "C01": ("exploration",
            "property-based testing (rapid): typed requests encoded by an independent BER encoder, field-by-field comparison with the handler's decoded message, over TCP pipelines and (for volume) through the decode hook",
            "Generated typed requests of all seven operations (arbitrary byte strings, message IDs up to 2^31-1, go-ldap-round-trippable filters from a recursive grammar, 0..4 attributes/changes/values, 0..4 controls of every kind) are encoded by the harness's own codec, sent pipelined to a live server whose every route records a deep copy of what Get*Message returns, and compared field by field (filter semantically via go-ldap CompileFilter); unsupported operations and bind versions != 3 must reach no handler. Exploration: strong on swapped/dropped/truncated fields, cannot show absence. One case in six is a sequential session that reuses message IDs as soon as the earlier exchange has completed, with handlers lingering after they answered.",
            "trusts the independent encoder (wire) to produce what the typed value says (cross-checked by go-ldap for filters) and go-ldap's CompileFilter for filter equivalence; VerifMessageInfo hook is used to read the extended-operation name/message ID which the public API does not expose",
            "DESIGN.md §4 C01"),
    "C03": ("exploration",
            "model-based testing: exhaustive enumeration of small route tables x all requests (k<=1 quick, k<=2 thorough) plus rapid-generated tables up to 8 routes, against a reference model of first-match routing",
            "Every route table with up to 2 routes over the alphabet (55 route kinds incl. case variants and all scopes; default route absent/present/registered twice) is crossed with all 59 requests on a live server; per request the handler-invocation log (complete once OnClose fired) must contain exactly the handler the reference model names and the client must get exactly one response; the built-in refusal must carry code 53, the request's message ID and the response tag of the request's operation, and the go-ldap client call must return 53 instead of timing out. Exhaustive up to the bound, random beyond. One random table in five has up to 40 routes.",
            "trusts the reference model written from the statement; relies on OnClose-after-handlers (C08) to know the invocation log is complete",
            "DESIGN.md §4 C03"),
    "C04": ("exploration",
            "property-based testing (rapid): response programs (constructor x documented options x setter sequences) executed in real handlers, frames parsed by an independent strict BER/LDAP parser and compared with a last-value-wins model; go-ldap as second reader",
            "Every generated response program is executed inside a handler on a real pipelined request with a random message ID; each frame received is parsed strictly by the harness's own codec and compared with the model (message ID, protocolOp tag, result code, matched DN, diagnostic message, entry DN, attributes in AddAttribute order / WithAttributes as a set, controls), and re-read by go-ldap's GetLDAPError / DecodeControl. Exploration over a large generated space; no absence claim. Connections are plain, TLS or StartTLS-upgraded, the server logs at error or debug level, and an Unbind or half-close may follow the requests in the same client write.",
            "trusts the strict parser (wire) and the model of documented options (doc comments of request.go); values nobody set ('Unused' placeholders) are not compared",
            "DESIGN.md §4 C04"),
    "C02": ("exploration",
            "exhaustive structured BER mutation (all single- and double-point mutants of every canonical request) + property-based mutation chains (rapid) + coverage-guided native fuzzing, all through the server's own decode path; end-to-end re-confirmation over TCP",
            "The complete single-point mutant set of every canonical request (7 operations x every control kind, control values opened up) in both tiers and the complete double-point set (about 5*10^7 streams) in the thorough tier are pushed through (*conn).readRequest via the verif hook with no recover in between; any panic is a violation fingerprinted by panicking gldap function + panic class. rapid adds mutation chains over generated requests, go test -fuzz adds coverage-guided byte streams, and a TCP part re-confirms against a live server by looking for the connection-level recover's log record. Exhaustive only over the stated mutation space; beyond it exploration. The live server of the TCP part logs at error, debug or trace level.",
            "trusts Go's recover to observe panics; VerifDecodeStream builds a conn over an in-memory reader and calls the same readRequest the read loop calls (hook reviewed, add-only); asn1-ber's own robustness is out of scope (length cap 1 MiB, inputs <= 64 KiB)",
            "DESIGN.md §4 C02"),
    "C05": ("exploration",
            "property-based scenario testing (rapid): N concurrent writers on one connection released by a barrier, strict incremental parse of the received stream + multiset/per-writer-order oracle; same scenarios under the Go race detector",
            "Generated scenarios (2..300 writers, frame sizes around the 4096-byte bufio boundary and up to 70 KB, or bursts of up to 256 writers with tiny frames repeated on the same connection; plain/TLS/StartTLS, eager/late/slow reader, GOMAXPROCS 1..16) run against a live server; the client parses the byte stream strictly with the independent codec (any torn or merged frame is a parse or identity error), compares the multiset of frames with the writes that returned nil and checks per-writer order. The harness owns the start of the race (barrier) but not the Go scheduler: found violations are real, absence is not shown.",
            "trusts the independent stream parser and the race detector; a per-ResponseWriter bufio.Writer would not be flagged (kernel/tls write locks keep frames whole), see DESIGN.md",
            "DESIGN.md §4 C05"),
    "C06": ("exploration",
            "property-based scenario testing (rapid): pipelines with a generated wait-for-later-request dependency graph; completion + numbering oracle, deadlock verdict backed by a stable goroutine census",
            "1..8 connections pipeline 1..256 requests (one write, or drip-fed one write per request) whose handlers block until a LATER request (same connection: random, the fully reversed chain, or all waiting for the last one so that up to 255 handlers of one connection are blocked at once; or another connection) has entered its handler; a correct dispatcher always completes, a serial or globally locked one deadlocks. Request.ID must equal the arrival position and ConnectionID must be stable per connection and distinct across connections. A missed bound counts only with two identical goroutine censuses 0.5 s apart (otherwise inconclusive).",
            "liveness is decided as a bounded wait (15 s against a normal few ms) plus stable-census evidence",
            "DESIGN.md §4 C06"),
    "C07": ("fault_enumeration",
            "fault enumeration in worker child processes: complete enumeration fault kind x operation x before/after write x panic value, plus rapid-generated surrounding traffic; oracle = child survives + bystander results",
            "Every fault of the enumeration (handler panic with a string / error / nil-dereference / custom value, before and after writing, in the handler of each operation incl. StartTLS, unbind and the default route; malformed frame; RST mid-frame; truncated frame + FIN; handler writing to a client that has gone; client that never reads megabytes; descriptor exhaustion at accept with RLIMIT_NOFILE lowered in the child) is injected into verified request/response traffic of bystander connections inside a child process. The child must survive, Run must not have returned, every bystander response must be correct and a new connection must be served. Complete over the enumeration in both tiers; traffic around it is generated. The never-reading client may also send an Unbind, half-close or a malformed frame while keeping its socket open; descriptor shortages last 30..1200 ms or repeat up to 40 times.",
            "the parent attributes a child death/hang to the scenario whose begin marker was seen last and re-runs the rest in a fresh child; panic recovery is enabled (the statement's default)",
            "DESIGN.md §4 C07"),
    "C08": ("exploration",
            "property-based scenario testing (rapid): connection endings x in-flight handler states x transports with gates owned by the harness; event-history invariants over a global sequence counter; goroutine and descriptor census",
            "Generated scenarios end 1..32 connections (plain/TLS/StartTLS) by FIN, RST, Unbind, malformed frame, unsupported operation, mid-frame disconnect, recovered panic, read timeout or Stop, with 0..4 handlers blocked on a harness gate (opened only after the ending was triggered) or writing megabytes to a non-reading client. Invariants over the recorded history: exactly one OnClose per connection with the ConnectionID its handlers saw, stamped after every handler exit; the client-visible close of server-initiated endings also after every handler exit; no connection goroutine or socket descriptor left. The harness controls handler progress, not the Go scheduler.",
            "sequence numbers are taken just before a handler returns and just after the client's read returned EOF/RST, so the comparison is sound in the direction it is used; relies on /proc/self/fd and runtime.Stack for the census",
            "DESIGN.md §4 C08"),
    "C09": ("exploration",
            "stateful model-based testing (rapid action sequences over one long-lived server) + a 10^5-connection lifetime run; model = tag -> ConnectionID map",
            "Open / request / long session / StartTLS upgrade / concurrent burst / close / reopen sequences with up to 64 connections open at once are run against one server; every request of a connection must report the same positive ConnectionID, IDs must be pairwise different over the server's whole life, and OnClose must deliver exactly the closed connection's ID once. The lifetime part opens up to 10^5 connections from 16 goroutines against one server; a worker-process part provokes accept failures (descriptor exhaustion) and checks the IDs of the connections accepted afterwards. Before its measured connections the lifetime part takes the connection counter past 2^16 with 70000 connect-and-reset clients while four connections stay open for the whole life of the server (same ID at the end).",
            "client-chosen tag travels in the message ID; OnClose is waited for after every close so the model and the server stay in step",
            "DESIGN.md §4 C09"),
    "C10": ("exploration",
            "property-based scenario testing (rapid): pipelines <requests> Unbind <requests> with split writes, optional unbind/default routes and gated earlier handlers; event-history + client-side stream oracle",
            "Generated pipelines put 0..8 requests behind an Unbind (same write() or split at generated offsets) while any subset of the 0..8 earlier handlers is held on a gate; the oracle demands no handler entry and no response for anything after the Unbind, no response to the Unbind, the unbind handler exactly once iff registered, every earlier request answered once, and the close (client EOF and OnClose) stamped after every earlier handler's exit. One case in eight has a crowd of 15..128 earlier handlers all still blocked when the Unbind is read.",
            "the gate opens 0..40 ms after sending; a missing close is reported after 8 s (a correct server needs milliseconds after the gate opens)",
            "DESIGN.md §4 C10"),
    "C11": ("fault_enumeration",
            "fault enumeration in worker child processes: every single connection state and every pair of states at Stop time (with/without concurrent second Stop), plus rapid-generated multisets of up to 16 connections; bounded-wait oracle backed by a stable goroutine census",
            "Connection states at the moment Stop is called - idle, idle after served requests, first k bytes of a frame sent, TCP connected to a TLS listener with no / partial ClientHello, idle inside a TLS session, pipelining as fast as it can, requesting a 13 MB answer and never reading (alone, followed by an Unbind, together with a StartTLS request, or five such requests pipelined), StartTLS answered but handshake never started; with and without one-hour read/write timeouts configured - are enumerated completely for singles and pairs and generated beyond; clients never close by themselves. Stop must return and Run must return nil within 5 s (a correct server needs at most the 500 ms write grace); a miss is a violation only with two identical goroutine censuses 0.5 s apart (deadlock) or, when the census keeps changing, if Stop still has not returned after 10 more seconds during which the process demonstrably got CPU (live-lock); otherwise inconclusive. Clients may also connect WHILE Stop is being called (4..64 per dialer, plain and TLS listeners, with and without one-hour timeouts), and storms of 150 start / connect-flood / Stop cycles run inside one worker scenario (Stop racing the accept loop).",
            "liveness decided as bounded wait + stability evidence; hung children are killed by the parent",
            "DESIGN.md §4 C11"),
    "C12": ("exploration",
            "property-based scenario testing (rapid) of Stop/Run orders and connection states with harness-owned gates; counters sampled at the instant Stop returns + bind probe on the port",
            "Orders {Stop before Run, concurrently with Run's start after generated yields, after Ready, twice in sequence, twice concurrently} x 0..6 connections whose handler / OnClose callback is held on a gate that a TIMER opens 20..250 ms after Stop was called (every client has already left, so C11's hang cannot mask the property). At the instant Stop returns the in-flight handler counter must be 0 and completed OnClose callbacks must equal accepted connections - facts read from counters, not timing guesses; after Run returned nil the port must refuse connections and be bindable again. Optionally silent clients connect while Stop is being called (half of those cases as storms of 20..80 start / flood / Stop cycles, garbage collector off): afterwards the process must hold no socket descriptor beyond the harness's own client sockets and no OnClose may complete after Stop returned; the handler of the Unbind route may itself be the handler that is still running.",
            "the exact interleaving of Stop with Run's listen step is reached by repetition over yield counts, not controlled",
            "DESIGN.md §4 C12"),
    "C13": ("exploration",
            "property-based scenario testing (rapid) of StartTLS sessions with generated handler timings through a recording wiretap proxy; handshake/decoding oracle + byte classification of the wire",
            "1..16 parallel sessions upgrade through a wiretap; the StartTLS handler's delays before the reply, between reply and handshake (client's ClientHello already on the wire) and after the handshake are generated; afterwards 1..40 generated requests run inside the tunnel, sequentially or pipelined. Conforming clients (raw independent client and go-ldap) must complete the handshake for every timing, every tunnel request must be decoded field-by-field as in C01 and answered once, and every captured byte after the StartTLS exchange must be a TLS record in both directions. One raw session in five pipelines a complete plaintext request behind its StartTLS request: it must never be dispatched or answered, neither before nor inside the tunnel.",
            "no operation is outstanding when StartTLS is sent (RFC 4511 4.14.1); TLS record classification is by content type/version/length only",
            "DESIGN.md §4 C13"),
    "C14": ("exploration",
            "property-based round-trip testing (rapid) of controls in both directions with three independent encoders / two independent decoders; constructor law for the Behera control",
            "Request direction: 0..6 generated controls per message, each encoded by the harness's RFC-shape encoder, by gldap's own Encode or by go-ldap's Encode, decoded by the server's request path and compared field by field (type, criticality, page size, cookie, expire, grace, error + string, value) in order. Response direction: controls built with the exported constructors, written on Bind/SearchDone responses by a real handler, recovered by the harness's strict parser and by go-ldap's DecodeControl. Constructor: every subset/order of the three Behera options, error or at most one set and error <= 8. A further part repeats the request-direction round trip on 2..8 connections at the same time. Exploration.",
            "trusts the harness's RFC shapes (RFC 2696, draft-behera-10, draft-vchu) and go-ldap as second reader; value-less Behera and OIDs go-ldap reinterprets are excluded from the go-ldap comparison and counted; MustChange and criticality of kinds without such a field are not compared",
            "DESIGN.md §4 C14"),
    "C15": ("exploration",
            "Go race detector over the generated concurrent workloads of C05, C06, C08, C09, C10, C12, C13, C14, C17, C19, C20, a generated directory workload (Set*/getters vs. client traffic) and an independent-Stop workload; reports attributed by first non-stdlib frame of both stacks",
            "The -race build of the harness runs the generated scenario families of the concurrency properties (C05 C06 C08 C09 C10 C12 C13 C14-concurrent C17 C19 C20), a directory workload in which a goroutine calls every Set* method and getter while 2..8 clients are served over plain/TLS/StartTLS, and a workload in which Stop is called from a goroutine that has no happens-before edge from the clients' traffic. Every race report is parsed by the driver; it counts iff in BOTH stacks the first frame outside the Go standard library lies in github.com/jimlambrt/gldap/... (fingerprint = unordered function pair). The detector generalises each execution to all schedules with the same synchronisation structure; code no workload executes is not covered. TestC03Random (pipelined, many unroutable requests) is a race workload too.",
            "trusts the race detector's happens-before analysis; the harness never mutates entries after handing them to Set* and never touches what getters return, so harness-vs-gldap reports cannot come from its own accesses; other reports are listed in the evidence file but do not decide the property",
            "DESIGN.md §4 C15"),
    "C16": ("exploration",
            "property-based testing (rapid) of totality, inverse and ordering laws + exhaustive 2^24 SID enumeration + native fuzzing of ConvertString",
            "Generated-input search against explicit oracles: no panic under recover for every exported helper/constructor with options drawn from ALL exported options (every subset/order reachable), ConvertString(wrap(s)) == s with an independent BER encoder, SIDBytesToString(SIDBytes(r,a)) == S-r-a (exhaustive over all 2^24 pairs in the thorough tier), NewEntry strictly sorted and stable, Values/ByteValues agreement after AddValue sequences; response constructors run inside real handlers on real requests and are written to the socket. Finds violations, cannot show absence beyond the enumerated SID space. A worker-child part calls the control constructors from 2..16 goroutines at once with control types never seen before in the process (a Go fatal error cannot be recovered, so process death is the signal).",
            "trusts the harness's own BER encoder (wire) for the wrap direction and Go's recover for panic detection",
            "DESIGN.md §4 C16"),
    "C17": ("exploration",
            "property-based testing (rapid) over listen addresses (valid, malformed, port already bound) with poller goroutines spinning on Ready from before Run; dial-on-first-true oracle",
            "0..8 pollers spin on Ready() from before Run is called under GOMAXPROCS 1..16; the first that sees true dials at once and a bind must be served; when Run returns an error (15 malformed forms, or a port the harness holds on both loopback families) no poller may ever have seen true and Ready must be false afterwards. The Go scheduler is not controlled: a window between flag and listen is found by repetition only. After a failing Run the caller may retry on the same Server (further failing Runs, then a valid address); a worker-child part puts a Ready server through 1..12 descriptor shortages of 5..1200 ms and demands that whenever Ready is still true a new connection is served.",
            "uses the VerifListenAddr hook to learn the address actually bound; malformed-form list follows validateAddrPort's documented cases",
            "DESIGN.md §4 C17"),
    "C18": ("exploration",
            "property-based testing (rapid) of offending client behaviours against TLS-configured servers (repository's own GetTLSConfig, with and without mTLS) and an mTLS test directory, concurrently with conforming bystanders",
            "Offenders (plaintext requests of all 7 operations, random bytes, silent connections, partial ClientHello, TLS without certificate, certificate of another CA or self-signed - presented even when the server's CA list does not match) must never cause a handler entry (recording handler keyed by reserved message IDs; for the directory: the Add they send must have no effect visible to a conforming client) nor receive a response; valid clients and bystanders must be served. TLS offenders also use no SNI or a foreign / case-variant server name, and any handler entry for a message no client sent (e.g. an unbind handler run for a connection without TLS session) is a violation.",
            "handler execution inside testdirectory is observed through its effect (entry added); teardown is awaited through OnClose counts on the plain servers and a 20 ms grace on the directory",
            "DESIGN.md §4 C18"),
    "C19": ("exploration",
            "property-based testing (rapid) of the bind decision against a three-line reference predicate, over plain/TLS/StartTLS with two independent clients",
            "Generated user sets (prefix/extension/case-variant/duplicate DNs, missing/empty/multi-valued passwords), both anonymous-bind settings (Set* on a running directory and WithDefaults at Start) and bind DN/password pairs related to the user set are sent through go-ldap SimpleBind and the raw independent client; the result code must be success iff the reference predicate of the statement holds, else 49. Exploration. Passwords include trailing NUL bytes and 63..71-byte values differing only after byte 64; one case in three first alternates SetUsers between an older variant and the final user set 2..64 times while 2..8 clients bind in a loop, and judges its binds when nothing is in flight.",
            "trusts the reference predicate (copied from the statement) and go-ldap's result-code reporting; the shared directory is reconfigured between cases with no request in flight",
            "DESIGN.md §4 C19"),
    "C20": ("exploration",
            "stateful model-based testing (rapid-generated operation sequences) of the test directory against an in-memory reference store, full read-back after every step",
            "Sequences of up to 30 Add/Modify/Delete/Search/SetUsers/SetGroups steps by 1..3 clients are applied to a running directory and to a map-based model in lock-step; after every step every DN of the pool is searched and compared with the model (existence, attributes, values modulo one level of OCTET STRING wrapping), result codes 68/32/0 are checked per operation. Exploration over histories; entry DNs are fixed-width so none is a substring of another (the statement's precondition). Four of the ten pool users have RDN values with non-ASCII characters, an escaped comma, #/+/= and an upper-case attribute type; SetTokenGroups and tokenGroups searches by SID are steps too.",
            "trusts the reference model; replace of an attribute that does not exist is left unspecified (untracked until a delete-attribute), group modification is not demanded",
            "DESIGN.md §4 C20"),
}

PENDING = {
}

# additions of round 4 (appended to the level text)
ROUND4 = {
    "C03": " Round 4: one generated table in three is completed on the LIVE mux - its last routes are registered after the requests were served once (judged against the shorter table) and the requests are served again.",
    "C07": " Round 4: panic values whose own Error()/String() method panics (typed-nil error, nil field, nil-map Stringer, go-ldap *Error without cause).",
    "C09": " Round 4: silent connections (connect and close without a request: the ID is the one OnClose reports) and a second gldap server starting, serving and stopping in the same process are steps of the state machine; about one sequence in 50 ends with a handler that keeps running 1.5..6 s after its client closed while 73 new connections are accepted, sampling its ConnectionID.",
    "C10": " Round 4: an earlier handler of the connection may panic after answering (recovered), and one case in six runs with a write deadline that has passed before the pipeline is sent (every response write fails; the Unbind's demands are unchanged); about one case in 60 keeps an earlier handler busy 2.3..5.2 s.",
    "C11": " Round 4: connection states 'inside a TLS session (TLS listener / upgraded with StartTLS), huge answer requested and never read' in singles, pairs and random multisets.",
    "C14": " Round 4: part reencode (metamorphic): a control object that is modified (SetCookie, field assignment, new bytes in the SAME cookie slice) and encoded again must encode like a fresh control with the same fields; VChu expiry strings with leading zeros from the independent encoder; every request is decoded a second time with the connection's logger at debug level.",
    "C17": " Round 4: malformed addresses include bracketed literals with junk before/after the brackets; servers with read/write timeouts and a first connection after an idle period longer than them; a port held on ONE loopback family only, with net.Listen on the same literal address as the reference for 'cannot listen'.",
    "C19": " Round 4: one case in three modifies users' password attribute over LDAP (replace / delete) before the judged binds; the reference predicate uses the credentials the directory holds at bind time, binds use passwords from before and after.",
}

ALL = ["C%02d" % i for i in range(1, 21)]


def main():
    hooks_commits = subprocess.run(["git", "-C", "/repo", "log", "--format=%H", "--grep=^verif hooks"],
                                   stdout=subprocess.PIPE).stdout.decode().split()
    checks = []
    for pid in ALL:
        if pid not in CHECKS:
            continue
        cat, tech, text, note, ref = CHECKS[pid]
        text += ROUND4.get(pid, "")
        checks.append({
            "property_id": pid,
            "quick_cmd": f"./check {pid} --tier quick",
            "thorough_cmd": f"./check {pid} --tier thorough",
            "evidence_file": f"/verif/evidence/{pid}.json",
            "replay_cmd_template": f"./check {pid} --replay {{path}}",
            "engine": "harness",
            "level_claimed": {"category": cat, "text": text, "design_ref": ref},
            "level_note": note,
            "technique": tech,
        })
    na = []
    for pid in ALL:
        if pid in CHECKS:
            continue
        na.append({"property_id": pid, "reason": PENDING.get(pid, "check not built yet (work in progress; claimed in DESIGN.md, will move to checks when its harness part lands)")})
    m = {
        "version": 1,
        "setup_cmd": "cd /verif/harness && GOFLAGS=-mod=mod GOPROXY=off GOSUMDB=off GOTOOLCHAIN=local go test -c -tags verif -o /dev/null ./props && GOFLAGS=-mod=mod GOPROXY=off GOSUMDB=off GOTOOLCHAIN=local go test -c -race -tags verif -o /dev/null ./props",
        "hooks": {
            "guard": "verif",
            "enable": "go build tag: the driver builds harness/props with `go test -c -tags verif` against /repo (replace directive), which compiles /repo/verif_hooks.go",
            "baseline_off_cmd": "cd /repo && GOPROXY=off GOSUMDB=off GOTOOLCHAIN=local go test -json -vet=off -count=1 -timeout 25m ./...",
            "source_commits": hooks_commits,
            "add_only": True,
        },
        "engines": [{
            "name": "harness",
            "path": "/verif/harness",
            "serves_properties": [c["property_id"] for c in checks],
            "kind_free_text": "Go module: independent BER/LDAP codec (wire), server laboratory (lab), one property file per property (props) driven by pgregory.net/rapid v1.3.0 and go test -fuzz; python driver /verif/check shards, merges evidence, applies known_findings.txt",
        }],
        "checks": checks,
        "not_applicable": na,
        "notes": "Every check: ./check <ID> --tier quick|thorough (VERIF_SEED honoured; exit 0 held, 1 VIOLATION, 2 inconclusive). known_findings.txt lists repaired (fixed:) and recorded (known:) genuine defects. Seeded breakages used to validate the checks are under seeded/.",
    }
    with open(os.path.join(VERIF, "MANIFEST.json"), "w") as f:
        json.dump(m, f, indent=1)
        f.write("\n")


if __name__ == "__main__":
    main()
