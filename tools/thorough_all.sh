#!/bin/sh
# Runs the thorough tier of every check in sequence; prints one line per property.
cd "$(dirname "$0")/.." || exit 2
ids="$*"
[ -z "$ids" ] && ids=$(python3 -c "import json;print(' '.join(c['property_id'] for c in json.load(open('MANIFEST.json'))['checks']))")
for id in $ids; do
  t0=$(date +%s)
  ./check "$id" --tier thorough > ".scratch/thorough-$id.log" 2>&1
  rc=$?
  echo "$id rc=$rc $(( $(date +%s) - t0 ))s $(grep -E '^(OK|VIOLATION|INCONCLUSIVE|KNOWN)' .scratch/thorough-$id.log | head -3 | tr '\n' ' ')"
done
