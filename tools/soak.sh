#!/bin/sh
# Soak: every quick check at several seeds, two at a time (machine busy). Prints only non-OK results and a summary.
cd "$(dirname "$0")/.." || exit 2
seeds="${*:-2 3 4 5 6}"
ids=$(python3 -c "import json;print(' '.join(c['property_id'] for c in json.load(open('MANIFEST.json'))['checks']))")
mkdir -p .scratch/soak
for s in $seeds; do
  for id in $ids; do
    echo "$s $id"
  done
done | xargs -P 2 -L 1 sh -c 'VERIF_SEED=$0 ./check $1 --tier quick > .scratch/soak/$1-$0.log 2>&1; echo "seed=$0 $1 rc=$? $(grep -E "^(OK|VIOLATION|INCONCLUSIVE)" .scratch/soak/$1-$0.log | head -2 | cut -c1-200 | tr "\n" " ")"' | grep -v "rc=0" 
echo "soak done: $(ls .scratch/soak | wc -l) runs"
