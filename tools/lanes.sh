#!/bin/sh
# tools/lanes.sh make <n> [<verif-commit>] | rm <n>
# A lane is a pair of scratch worktrees outside /repo and /verif: /tmp/lane<n>/repo (of /repo HEAD) and
# /tmp/lane<n>/verif (of /verif at <verif-commit>, default HEAD) whose harness builds against that repo worktree.
# tools/seeded.py run --repo /tmp/lane<n>/repo --check-dir /tmp/lane<n>/verif evaluates seeded changes there, so
# several changes can be evaluated at once without touching /repo. Remove the lane when done.
set -e
cmd=$1; n=$2; rev=${3:-HEAD}
d=/tmp/lane$n
case $cmd in
make)
  mkdir -p $d
  git -C /repo worktree add -q --detach $d/repo HEAD
  git -C /verif worktree add -q --detach $d/verif $rev
  sed -i "s#=> /repo#=> $d/repo#" $d/verif/harness/go.mod
  mkdir -p $d/verif/.scratch
  ;;
rm)
  git -C /repo worktree remove --force $d/repo || true
  git -C /verif worktree remove --force $d/verif || true
  rm -rf $d
  git -C /repo worktree prune; git -C /verif worktree prune
  ;;
esac
