#!/usr/bin/env python3
"""Prints the markdown table of DESIGN.md §12 from seeded/*/meta.json."""
import json
import os
import re

VERIF = os.path.dirname(os.path.dirname(os.path.abspath(__file__)))
rows = []
for sid in sorted(os.listdir(os.path.join(VERIF, "seeded"))):
    mp = os.path.join(VERIF, "seeded", sid, "meta.json")
    if not os.path.exists(mp):
        continue
    m = json.load(open(mp))
    what = m.get("summary") or ""
    if not what:
        notes = m.get("needs_to_manifest", "")
        what = re.sub(r"\s+", " ", notes)[:220]
    checks = []
    for k, v in sorted(m.get("checks", {}).items()):
        fp = v.get("first_violation", "")
        fpm = re.match(r"fingerprint=([^:]+(?::[^: ]+)?)", fp)
        checks.append(f"{k}: {v['verdict']}" + (f" (`{fpm.group(1)}`)" if fpm and v["verdict"] == "CAUGHT" else ""))
    rows.append((sid, m["breaks_property"], what.replace("|", "/"), "; ".join(checks)))
print("| seeded id | breaks | what it does / what it needs | checks (tier: verdict, fingerprint) |")
print("|---|---|---|---|")
for r in rows:
    print("| " + " | ".join(r) + " |")
