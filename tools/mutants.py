#!/usr/bin/env python3
"""Hand-written sensitivity mutants ("must kill" lists of DESIGN.md §4).

  tools/mutants.py [--only NAME_SUBSTR] [--props C01,C04] [--suite] [--tier quick]

Each mutant is a textual replacement in one file of /repo. The runner applies
it to /repo's working tree, optionally runs the repository's own suite (which
must still pass: a mutant the suite kills is not interesting), runs the quick
check of the properties it is meant to break, and reverts with
`git -C /repo checkout -- .`. A check "kills" the mutant when it exits 1 with
a VIOLATION line. Results are appended to tools/mutants_results.json.
"""
import argparse
import json
import os
import subprocess
import sys
import time

REPO = "/repo"
VERIF = os.path.dirname(os.path.dirname(os.path.abspath(__file__)))

M = []


def mut(name, props, file, old, new, count=1, more=()):
    M.append(dict(name=name, props=props, edits=[(file, old, new, count)] + [(f, o, n, 1) for (f, o, n) in more]))


# ---- C01 -------------------------------------------------------------------
mut("c01-size-time-swapped", ["C01"], "message.go",
    "SizeLimit:    parameters.sizeLimit,\n\t\t\tTimeLimit:    parameters.timeLimit,",
    "SizeLimit:    parameters.timeLimit,\n\t\t\tTimeLimit:    parameters.sizeLimit,")
mut("c01-scope-deref-swapped", ["C01"], "message.go",
    "Scope:        Scope(parameters.scope),\n\t\t\tDerefAliases: int(parameters.derefAliases),",
    "Scope:        Scope(parameters.derefAliases),\n\t\t\tDerefAliases: int(parameters.scope),")
mut("c01-delete-controls-dropped", ["C01", "C14"], "message.go",
    "DN:       dn,\n\t\t\tControls: controls,", "DN:       dn,\n\t\t\tControls: controls[:0],")
mut("c01-search-attrs-truncated-to-first", ["C01"], "packet.go",
    "for idx, attribute := range attributesPacket.Children {",
    "for idx, attribute := range attributesPacket.Children {\n\t\tif idx > 0 {\n\t\t\tbreak\n\t\t}")
mut("c01-add-values-off-by-one", ["C01"], "add.go",
    "for idx := range valuesPacket.Children {", "for idx := range valuesPacket.Children {\n\t\tif idx > 0 && idx == len(valuesPacket.Children)-1 {\n\t\t\tbreak\n\t\t}")
mut("c01-msgid-from-request-counter", ["C01"], "request.go",
    "m, err := newMessage(p)\n\tif err != nil {\n\t\treturn nil, fmt.Errorf(\"%s: unable to build message for request %d: %w\", op, id, err)\n\t}",
    "m, err := newMessage(p)\n\tif err != nil {\n\t\treturn nil, fmt.Errorf(\"%s: unable to build message for request %d: %w\", op, id, err)\n\t}\n\tif sm, ok := m.(*SearchMessage); ok {\n\t\tsm.baseMessage.id = int64(id)\n\t}")
mut("c01-unknown-tag-mapped-to-extended", ["C01"], "packet.go",
    "\t\treturn unknownRequestType, fmt.Errorf(\"%s: unhandled request type %d: %w\", op, requestPacket.Tag, ErrInternal)",
    "\t\treturn unknownRequestType, nil")
mut("c01-version-gate-removed", ["C01"], "packet.go",
    "if ldapVersion != 3 {", "if ldapVersion != 3 && ldapVersion > 1000 {")
mut("c01-modify-values-last-dropped", ["C01"], "packet.go",
    "for _, value := range valuesPacket.Children {", "for i, value := range valuesPacket.Children {\n\t\t\tif i == 2 {\n\t\t\t\tcontinue\n\t\t\t}")
mut("c01-typesonly-negated-when-sizelimit-big", ["C01"], "message.go",
    "TypesOnly:    parameters.typesOnly,", "TypesOnly:    parameters.typesOnly != (parameters.sizeLimit > 1<<20),")

# ---- C02 -------------------------------------------------------------------
mut("c02-comma-ok-removed-control-type-2child", ["C02"], "control.go",
    "\tcase 2:\n\t\tpacket.Children[0].Description = \"Control Type (\" + ControlTypeMap[ControlType] + \")\"\n\t\tif ControlType, ok = packet.Children[0].Value.(string); !ok {\n\t\t\treturn nil, fmt.Errorf(\"%s: control type is not a string: %w\", op, ErrInvalidParameter)\n\t\t}",
    "\tcase 2:\n\t\tpacket.Children[0].Description = \"Control Type (\" + ControlTypeMap[ControlType] + \")\"\n\t\tControlType = packet.Children[0].Value.(string)")
mut("c02-assert-ignores-tag", ["C02"], "packet.go",
    "if opts.withTag != nil && chkPacket.Tag != *opts.withTag {", "if opts.withTag != nil && chkPacket.Tag != *opts.withTag && false {")
mut("c02-withassertchild-guard-removed", ["C02"], "packet.go",
    "if len(p.Children) < *opts.withAssertChild+1 {", "if len(p.Children) < *opts.withAssertChild+1 && *opts.withAssertChild != 5 {")
mut("c02-paging-len-check-removed", ["C02"], "control.go",
    "if len(value.Children) < 2 {", "if len(value.Children) < 1 {")
mut("c02-behera-warning-child-check-removed", ["C02"], "control.go",
    "if len(child.Children) == 0 {\n\t\t\t\t\treturn nil, fmt.Errorf(\"%s: behera warning must have a child: %w\", op, ErrInvalidParameter)\n\t\t\t\t}\n", "")

# ---- C03 -------------------------------------------------------------------
mut("c03-reversed-scan", ["C03"], "mux.go",
    "for _, r := range m.routes {\n\t\tif !r.match(req) {",
    "for i := len(m.routes) - 1; i >= 0; i-- {\n\t\tr := m.routes[i]\n\t\tif !r.match(req) {")
mut("c03-no-return-after-match", ["C03"], "mux.go",
    "\t\th(w, req)\n\t\treturn\n\t}\n\tif m.defaultRoute != nil {", "\t\th(w, req)\n\t}\n\tif m.defaultRoute != nil {")
mut("c03-default-consulted-first-for-delete", ["C03"], "mux.go",
    "\t// find the first matching route to dispatch the request to and then return\n",
    "\tif m.defaultRoute != nil && req.routeOp == deleteRouteOperation {\n\t\tm.defaultRoute.handler()(w, req)\n\t\treturn\n\t}\n")
mut("c03-basedn-case-sensitive", ["C03"], "route.go",
    "if r.basedn != \"\" && !strings.EqualFold(searchMsg.BaseDN, r.basedn) {", "if r.basedn != \"\" && searchMsg.BaseDN != r.basedn {")
mut("c03-filter-case-sensitive", ["C03"], "route.go",
    "if r.filter != \"\" && !strings.EqualFold(searchMsg.Filter, r.filter) {", "if r.filter != \"\" && searchMsg.Filter != r.filter {")
mut("c03-scope-compared-when-zero", ["C03"], "route.go",
    "if r.scope != 0 && searchMsg.Scope != r.scope {", "if searchMsg.Scope != r.scope {")
mut("c03-refusal-msgid-from-counter", ["C03"], "mux.go",
    "\t_ = w.Write(resp)\n}\n\n// responseApplicationCode", "\tresp.messageID = int64(req.ID)\n\t_ = w.Write(resp)\n}\n\n// responseApplicationCode")
mut("c03-refusal-dropped-for-search", ["C03"], "mux.go",
    "\t_ = w.Write(resp)\n}\n\n// responseApplicationCode", "\tif req.routeOp != searchRouteOperation {\n\t\t_ = w.Write(resp)\n\t}\n}\n\n// responseApplicationCode")
mut("c03-refusal-always-extended", ["C03"], "mux.go",
    "\t\tWithApplicationCode(responseApplicationCode(req.routeOp)),\n", "")
mut("c03-extended-prefix-match", ["C03"], "route.go",
    "if r.extendedName != req.extendedName {", "if !strings.HasPrefix(string(req.extendedName), string(r.extendedName)) {")
mut("c03-second-search-route-shadowed", ["C03"], "mux.go",
    "\tfor _, r := range m.routes {\n\t\tif !r.match(req) {\n\t\t\tcontinue\n\t\t}",
    "\tfor i, r := range m.routes {\n\t\tif !r.match(req) || (i == 1 && r.op() == searchRouteOperation && len(m.routes) > 2) {\n\t\t\tcontinue\n\t\t}")

# ---- C19 -------------------------------------------------------------------
mut("c19-hasprefix", ["C19"], "testdirectory/directory.go", "if u.DN == m.UserName {", "if strings.HasPrefix(u.DN, m.UserName) {")
mut("c19-equalfold", ["C19"], "testdirectory/directory.go", "if u.DN == m.UserName {", "if strings.EqualFold(u.DN, m.UserName) {")
mut("c19-contains", ["C19"], "testdirectory/directory.go", "if u.DN == m.UserName {", "if strings.Contains(m.UserName, u.DN) {")
mut("c19-any-password-value", ["C19"], "testdirectory/directory.go",
    "if len(values) > 0 && string(m.Password) == values[0] {", "if len(values) > 0 && slices.Contains(values, string(m.Password)) {")
mut("c19-anon-regardless-of-flag", ["C19"], "testdirectory/directory.go",
    "if m.Password == \"\" && d.allowAnonymousBind {", "if m.Password == \"\" {")
mut("c19-default-success-when-no-users", ["C19"], "testdirectory/directory.go",
    "\t\t// bind failed...\n", "\t\tif len(d.users) == 0 {\n\t\t\tresp.SetResultCode(gldap.ResultSuccess)\n\t\t}\n")
mut("c19-first-user-only", ["C19"], "testdirectory/directory.go",
    "\t\t\t\t\treturn\n\t\t\t\t}\n\t\t\t}\n\t\t}\n\t\t// bind failed...", "\t\t\t\t\treturn\n\t\t\t\t}\n\t\t\t\tbreak\n\t\t\t}\n\t\t}\n\t\t// bind failed...")
mut("c19-defaults-anon-ignored", ["C19"], "testdirectory/directory.go",
    "allowAnonymousBind: opts.withDefaults.AllowAnonymousBind,", "allowAnonymousBind: false,")

# ---- C20 -------------------------------------------------------------------
mut("c20-add-no-duplicate-check", ["C20"], "testdirectory/directory.go",
    "if found, _, _ := find(d.t, fmt.Sprintf(\"(%s)\", m.DN), d.users); found {", "if found, _, _ := find(d.t, fmt.Sprintf(\"(%s)\", m.DN), d.users); found && len(d.users) > 3 {")
mut("c20-delete-wrong-index", ["C20"], "testdirectory/directory.go",
    "d.users = append(d.users[:foundAt[0]], d.users[foundAt[0]+1:]...)", "d.users = d.users[:len(d.users)-1]")
mut("c20-add-value-replaces", ["C20"], "testdirectory/directory.go",
    "foundAttr.AddValue(chg.Modification.Vals...)", "foundAttr.Values, foundAttr.ByteValues = nil, nil\n\t\t\t\t\tfoundAttr.AddValue(chg.Modification.Vals...)")
mut("c20-replace-local-again", ["C20"], "testdirectory/directory.go",
    "e.Attributes[foundAt] = gldap.NewEntryAttribute(chg.Modification.Type, vals)", "foundAttr = gldap.NewEntryAttribute(chg.Modification.Type, vals)\n\t\t\t\t\t_ = foundAttr")
mut("c20-delete-attr-removes-first", ["C20"], "testdirectory/directory.go",
    "copy(e.Attributes[foundAt:], e.Attributes[foundAt+1:])", "foundAt = 0\n\t\t\t\t\tcopy(e.Attributes[foundAt:], e.Attributes[foundAt+1:])")
mut("c20-modify-missing-returns-success", ["C20"], "testdirectory/directory.go",
    "\t\tif len(entries) == 0 {\n\t\t\treturn\n\t\t}\n\t\tif len(entries) > 1 {", "\t\tif len(entries) == 0 {\n\t\t\tres.SetResultCode(gldap.ResultSuccess)\n\t\t\treturn\n\t\t}\n\t\tif len(entries) > 1 {")
mut("c20-add-drops-attrs-beyond-two", ["C20"], "testdirectory/directory.go",
    "\t\t\tattrs[a.Type] = a.Vals\n", "\t\t\tif len(attrs) < 2 {\n\t\t\t\tattrs[a.Type] = a.Vals\n\t\t\t}\n")
mut("c20-delete-group-leaves-entry", ["C20"], "testdirectory/directory.go",
    "d.groups = append(d.groups[:foundAt[0]], d.groups[foundAt[0]+1:]...)", "_ = foundAt")
mut("c20-second-change-ignored", ["C20"], "testdirectory/directory.go",
    "\t\tfor _, chg := range m.Changes {\n\t\t\t// find specific attr", "\t\tfor ci, chg := range m.Changes {\n\t\t\tif ci > 1 {\n\t\t\t\tbreak\n\t\t\t}\n\t\t\t// find specific attr")

# ---- C04 -------------------------------------------------------------------
mut("c04-msgid-from-request-counter", ["C04"], "request.go",
    "resp := &SearchResponseDone{\n\t\tbaseResponse: &baseResponse{\n\t\t\tmessageID: r.message.GetID(),",
    "resp := &SearchResponseDone{\n\t\tbaseResponse: &baseResponse{\n\t\t\tmessageID: int64(r.ID),")
mut("c04-matched-diag-swapped", ["C04"], "response.go",
    "bindResponse.AppendChild(ber.NewString(ber.ClassUniversal, ber.TypePrimitive, ber.TagOctetString, opts.withMatchedDN, \"matchedDN\"))\n\tbindResponse.AppendChild(ber.NewString(ber.ClassUniversal, ber.TypePrimitive, ber.TagOctetString, opts.withDiagnosticMessage, \"diagnosticMessage\"))",
    "bindResponse.AppendChild(ber.NewString(ber.ClassUniversal, ber.TypePrimitive, ber.TagOctetString, opts.withDiagnosticMessage, \"matchedDN\"))\n\tbindResponse.AppendChild(ber.NewString(ber.ClassUniversal, ber.TypePrimitive, ber.TagOctetString, opts.withMatchedDN, \"diagnosticMessage\"))")
mut("c04-application-code-ignored", ["C04"], "response.go",
    "resultPacket := ber.Encode(ber.ClassApplication, ber.TypeConstructed, ber.Tag(r.applicationCode), nil, ApplicationCodeMap[uint8(r.applicationCode)])",
    "resultPacket := ber.Encode(ber.ClassApplication, ber.TypeConstructed, ber.Tag(ApplicationExtendedResponse), nil, ApplicationCodeMap[uint8(r.applicationCode)])")
mut("c04-attribute-order-reversed", ["C04"], "response.go",
    "for _, a := range r.entry.Attributes {\n\t\tattributesPacket.AppendChild(a.encode())\n\t}",
    "for i := len(r.entry.Attributes) - 1; i >= 0; i-- {\n\t\tattributesPacket.AppendChild(r.entry.Attributes[i].encode())\n\t}")
mut("c04-controls-lost-when-code-nonzero", ["C04", "C14"], "response.go",
    "replyPacket.AppendChild(resultPacket)\n\tif len(r.controls) > 0 {\n\t\treplyPacket.AppendChild(encodeControls(r.controls))\n\t}\n\n\treturn &packet{Packet: replyPacket}",
    "replyPacket.AppendChild(resultPacket)\n\tif len(r.controls) > 0 && r.code == 0 {\n\t\treplyPacket.AppendChild(encodeControls(r.controls))\n\t}\n\n\treturn &packet{Packet: replyPacket}")
mut("c04-setdiag-truncates-long", ["C04"], "response.go",
    "l.diagMessage = msg", "l.diagMessage = msg\n\tif len(msg) > 65535 {\n\t\tl.diagMessage = msg[:65535]\n\t}")
mut("c04-code-int8", ["C04"], "response.go",
    "l.code = int16(code)", "l.code = int16(int8(code))")

# ---- C05 -------------------------------------------------------------------
mut("c05-lock-removed", ["C05"], "response.go",
    "\trw.writerMu.Lock()\n\tdefer rw.writerMu.Unlock()\n", "")
mut("c05-lock-released-before-flush", ["C05"], "response.go",
    "\trw.writerMu.Lock()\n\tdefer rw.writerMu.Unlock()\n\tif _, err := rw.writer.Write(r.packet().Bytes()); err != nil {\n\t\treturn fmt.Errorf(\"%s: unable to write response: %w\", op, err)\n\t}\n",
    "\trw.writerMu.Lock()\n\tif _, err := rw.writer.Write(r.packet().Bytes()); err != nil {\n\t\trw.writerMu.Unlock()\n\t\treturn fmt.Errorf(\"%s: unable to write response: %w\", op, err)\n\t}\n\trw.writerMu.Unlock()\n")
mut("c05-fresh-mutex-per-writer", ["C05"], "conn.go",
    "w, err := newResponseWriter(c.writer, &c.writerMu, c.logger, c.connID, requestID)", "w, err := newResponseWriter(c.writer, &sync.Mutex{}, c.logger, c.connID, requestID)")
mut("c05-lock-skipped-for-small-frames", ["C05"], "response.go",
    "\trw.writerMu.Lock()\n\tdefer rw.writerMu.Unlock()\n\tif _, err := rw.writer.Write(r.packet().Bytes()); err != nil {",
    "\tb := r.packet().Bytes()\n\tif len(b) > 512 {\n\t\trw.writerMu.Lock()\n\t\tdefer rw.writerMu.Unlock()\n\t}\n\tif _, err := rw.writer.Write(b); err != nil {")

# ---- C06 -------------------------------------------------------------------
mut("c06-handler-inline", ["C06"], "conn.go",
    "\t\t\tc.requestsWg.Add(1)\n\t\t\tgo func() {\n\t\t\t\tdefer func() {\n\t\t\t\t\tc.logger.Debug(\"requestsWg done\", \"op\", op, \"conn\", c.connID, \"requestID\", w.requestID)\n\t\t\t\t\tc.requestsWg.Done()\n\t\t\t\t}()\n\t\t\t\tc.router.serve(w, r)\n\t\t\t}()",
    "\t\t\tc.router.serve(w, r)")
mut("c06-global-dispatch-lock", ["C06"], "conn.go",
    "\t\t\t\tc.router.serve(w, r)\n\t\t\t}()", "\t\t\t\tc.router.mu.Lock()\n\t\t\t\tdefer c.router.mu.Unlock()\n\t\t\t\tc.router.serve(w, r)\n\t\t\t}()")
mut("c06-request-id-skips-after-extended", ["C06"], "conn.go",
    "\t\tr, err := c.readRequest(w.requestID)\n", "\t\tr, err := c.readRequest(w.requestID)\n\t\tif err == nil && r.routeOp == extendedRouteOperation {\n\t\t\trequestID++\n\t\t}\n")
mut("c06-search-dispatched-inline", ["C06"], "conn.go",
    "case r.extendedName == ExtendedOperationStartTLS:", "case r.extendedName == ExtendedOperationStartTLS || r.routeOp == searchRouteOperation:")
mut("c06-inflight-cap-8", ["C06"], "conn.go",
    "\t\t\tc.requestsWg.Add(1)\n\t\t\tgo func() {", "\t\t\tif requestID%9 == 0 {\n\t\t\t\tc.requestsWg.Wait()\n\t\t\t}\n\t\t\tc.requestsWg.Add(1)\n\t\t\tgo func() {")

# ---- C10 -------------------------------------------------------------------
mut("c10-continue-instead-of-return", ["C10"], "conn.go",
    "\t\t\t// stop serving requests when UnbindRequest is received\n\t\t\treturn nil", "\t\t\t// stop serving requests when UnbindRequest is received\n\t\t\tcontinue")
mut("c10-unbind-dispatched-on-goroutine", ["C10"], "conn.go",
    "\t\tcase r.routeOp == unbindRouteOperation:", "\t\tcase r.routeOp == unbindRouteOperation && c.router.unbindRoute == nil:")
mut("c10-default-route-gets-unbind-and-loop-continues", ["C10"], "conn.go",
    "\t\t\tif c.router.unbindRoute != nil {\n\t\t\t\tc.router.unbindRoute.handler()(w, r)\n\t\t\t}",
    "\t\t\tif c.router.unbindRoute != nil {\n\t\t\t\tc.router.unbindRoute.handler()(w, r)\n\t\t\t} else if c.router.defaultRoute != nil {\n\t\t\t\tc.router.defaultRoute.handler()(w, r)\n\t\t\t\tcontinue\n\t\t\t}")
mut("c10-unbind-handler-twice", ["C10"], "conn.go",
    "\t\t\t\tc.router.unbindRoute.handler()(w, r)\n", "\t\t\t\tc.router.unbindRoute.handler()(w, r)\n\t\t\t\tif requestID > 3 {\n\t\t\t\t\tc.router.unbindRoute.handler()(w, r)\n\t\t\t\t}\n")
mut("c10-unbind-answered", ["C10"], "conn.go",
    "\t\t\t// stop serving requests when UnbindRequest is received\n", "\t\t\t_ = w.Write(r.NewResponse(WithResponseCode(ResultSuccess)))\n")
mut("c10-close-without-waiting-on-unbind", ["C10", "C08"], "conn.go",
    "\t\t\t// stop serving requests when UnbindRequest is received\n", "\t\t\t_ = c.netConn.Close()\n")

# ---- C08 -------------------------------------------------------------------
mut("c08-onclose-before-conn-close", ["C08"], "server.go",
    "\t\t\t\ts.connWg.Done()\n\t\t\t\terr := conn.close()",
    "\t\t\t\ts.connWg.Done()\n\t\t\t\tif s.onCloseHandler != nil {\n\t\t\t\t\ts.onCloseHandler(localConnID)\n\t\t\t\t}\n\t\t\t\terr := conn.close()\n\t\t\t\tif err == nil {\n\t\t\t\t\treturn\n\t\t\t\t}")
mut("c08-requestswg-wait-removed", ["C08", "C10"], "conn.go",
    "\tc.requestsWg.Wait()\n\tif err := c.netConn.Close(); err != nil {", "\tif err := c.netConn.Close(); err != nil {")
mut("c08-onclose-skipped-on-error-path", ["C08"], "server.go",
    "\t\t\tif err := conn.serveRequests(); err != nil {\n\t\t\t\ts.logger.Error(\"error handling conn\", \"op\", op, \"conn\", localConnID, \"err\", err.Error())\n\t\t\t}",
    "\t\t\tif err := conn.serveRequests(); err != nil {\n\t\t\t\ts.logger.Error(\"error handling conn\", \"op\", op, \"conn\", localConnID, \"err\", err.Error())\n\t\t\t\tskipOnClose = true\n\t\t\t}",
    more=[("server.go", "\t\tlocalConnID := connID\n", "\t\tlocalConnID := connID\n\t\tskipOnClose := false\n"),
          ("server.go", "\t\t\t\tif s.onCloseHandler != nil {\n\t\t\t\t\ts.onCloseHandler(localConnID)", "\t\t\t\tif s.onCloseHandler != nil && !skipOnClose {\n\t\t\t\t\ts.onCloseHandler(localConnID)")])
mut("c08-onclose-twice-when-clean-return", ["C08"], "server.go",
    "\t\t\tif err := conn.serveRequests(); err != nil {\n\t\t\t\ts.logger.Error(\"error handling conn\", \"op\", op, \"conn\", localConnID, \"err\", err.Error())\n\t\t\t}",
    "\t\t\tif err := conn.serveRequests(); err != nil {\n\t\t\t\ts.logger.Error(\"error handling conn\", \"op\", op, \"conn\", localConnID, \"err\", err.Error())\n\t\t\t} else if s.onCloseHandler != nil {\n\t\t\t\ts.onCloseHandler(localConnID)\n\t\t\t}")
mut("c08-socket-left-open-after-error", ["C08"], "server.go",
    "\t\t\t\terr := conn.close()\n", "\t\t\t\tvar err error\n\t\t\t\tif !leakSocket {\n\t\t\t\t\terr = conn.close()\n\t\t\t\t}\n",
    more=[("server.go", "\t\tlocalConnID := connID\n", "\t\tlocalConnID := connID\n\t\tleakSocket := false\n"),
          ("server.go", "\t\t\t\ts.logger.Error(\"error handling conn\", \"op\", op, \"conn\", localConnID, \"err\", err.Error())\n", "\t\t\t\ts.logger.Error(\"error handling conn\", \"op\", op, \"conn\", localConnID, \"err\", err.Error())\n\t\t\t\tleakSocket = true\n")])
mut("c08-panic-path-skips-cleanup", ["C08"], "server.go",
    "\t\t\t\t\tif r := recover(); r != nil {\n\t\t\t\t\t\ts.logger.Error(\"Caught panic while serving request\"", "\t\t\t\t\tif r := recover(); r != nil {\n\t\t\t\t\t\tpanicked = true\n\t\t\t\t\t\ts.logger.Error(\"Caught panic while serving request\"",
    more=[("server.go", "\t\tlocalConnID := connID\n", "\t\tlocalConnID := connID\n\t\tpanicked := false\n"),
          ("server.go", "\t\t\t\tif s.onCloseHandler != nil {\n\t\t\t\t\ts.onCloseHandler(localConnID)", "\t\t\t\tif s.onCloseHandler != nil && !panicked {\n\t\t\t\t\ts.onCloseHandler(localConnID)")])

# ---- C09 -------------------------------------------------------------------
mut("c09-id-is-number-of-open-connections", ["C09"], "server.go",
    "\t\tconn, err := newConn(s.shutdownCtx, connID, c, s.logger, s.router)", "\t\tconnID = int(atomic.AddInt64(&s.open, 1))\n\t\tconn, err := newConn(s.shutdownCtx, connID, c, s.logger, s.router)",
    more=[("server.go", "\tdisablePanicRecovery bool\n", "\tdisablePanicRecovery bool\n\topen                 int64\n"),
          ("server.go", "\t\t\t\ts.connWg.Done()\n", "\t\t\t\tatomic.AddInt64(&s.open, -1)\n\t\t\t\ts.connWg.Done()\n"),
          ("server.go", "\t\"sync\"\n", "\t\"sync\"\n\t\"sync/atomic\"\n")])
mut("c09-id-captured-by-reference", ["C09", "C08"], "server.go",
    "\t\t\t\t\ts.onCloseHandler(localConnID)", "\t\t\t\t\ts.onCloseHandler(connID)")
mut("c09-id-wraps-at-64", ["C09"], "server.go",
    "\t\tconn, err := newConn(s.shutdownCtx, connID, c, s.logger, s.router)", "\t\tconn, err := newConn(s.shutdownCtx, (connID-1)%64+1, c, s.logger, s.router)")
mut("c09-request-connid-from-requestid-after-100", ["C09"], "request.go",
    "\treturn r.conn.connID\n", "\tif r.ID > 100 {\n\t\treturn r.ID\n\t}\n\treturn r.conn.connID\n")

# ---- C13 -------------------------------------------------------------------
mut("c13-starttls-dispatched-on-goroutine", ["C13"], "conn.go",
    "\t\tcase r.extendedName == ExtendedOperationStartTLS:\n\t\t\tc.router.serve(w, r)", "\t\tcase r.extendedName == ExtendedOperationStartTLS:\n\t\t\tgo c.router.serve(w, r)")
mut("c13-writer-swapped-but-not-reader", ["C13"], "conn.go",
    "\tc.reader = bufio.NewReader(c.netConn)\n", "\tif c.reader == nil {\n\t\tc.reader = bufio.NewReader(c.netConn)\n\t}\n")
mut("c13-reader-swapped-but-not-writer", ["C13"], "conn.go",
    "\tc.writer = bufio.NewWriter(c.netConn)\n", "\tif c.writer == nil {\n\t\tc.writer = bufio.NewWriter(c.netConn)\n\t}\n")
mut("c13-responsewriter-created-before-swap", ["C13"], "conn.go",
    "\t\tcase r.extendedName == ExtendedOperationStartTLS:\n\t\t\tc.router.serve(w, r)",
    "\t\tcase r.extendedName == ExtendedOperationStartTLS:\n\t\t\tc.router.serve(w, r)\n\t\t\tstale = w.writer",
    more=[("conn.go", "\trequestID := 0\n", "\trequestID := 0\n\tvar stale *bufio.Writer\n"),
          ("conn.go", "\t\tw, err := newResponseWriter(c.writer, &c.writerMu, c.logger, c.connID, requestID)\n\t\tif err != nil {\n\t\t\treturn fmt.Errorf(\"%s: %w\", op, err)\n\t\t}\n",
           "\t\tw, err := newResponseWriter(c.writer, &c.writerMu, c.logger, c.connID, requestID)\n\t\tif err != nil {\n\t\t\treturn fmt.Errorf(\"%s: %w\", op, err)\n\t\t}\n\t\tif stale != nil && requestID%5 == 0 {\n\t\t\tw.writer = stale\n\t\t}\n")])
mut("c13-starttls-inline-only-when-first-request", ["C13"], "conn.go",
    "\t\tcase r.extendedName == ExtendedOperationStartTLS:", "\t\tcase r.extendedName == ExtendedOperationStartTLS && requestID == 1:")

# ---- C17 -------------------------------------------------------------------
mut("c17-flag-set-before-listen", ["C17"], "server.go",
    "\ts.mu.Lock()\n\ts.listener, err = net.Listen(\"tcp\", addr)\n\tif err != nil {\n\t\ts.mu.Unlock()",
    "\ts.mu.Lock()\n\ts.listenerReady = true\n\ts.mu.Unlock()\n\ts.mu.Lock()\n\ts.listener, err = net.Listen(\"tcp\", addr)\n\tif err != nil {\n\t\ts.listenerReady = false\n\t\ts.mu.Unlock()")
mut("c17-flag-set-in-newserver", ["C17"], "server.go",
    "\t\tonCloseHandler:       opts.withOnClose,\n", "\t\tonCloseHandler:       opts.withOnClose,\n\t\tlistenerReady:        true,\n")
mut("c17-flag-set-regardless-of-error", ["C17"], "server.go",
    "\tif err != nil {\n\t\ts.mu.Unlock()\n\t\treturn fmt.Errorf(\"%s: unable to listen", "\tif err != nil {\n\t\ts.listenerReady = true\n\t\ts.mu.Unlock()\n\t\treturn fmt.Errorf(\"%s: unable to listen")
mut("c17-flag-set-after-validation-failure", ["C17"], "server.go",
    "\taddr, err = validateAddrPort(addr)\n\tif err != nil {\n", "\taddr, err = validateAddrPort(addr)\n\tif err != nil {\n\t\ts.mu.Lock()\n\t\ts.listenerReady = true\n\t\ts.mu.Unlock()\n")
mut("c17-bare-ipv6-not-bracketed", ["C17"], "server.go",
    "\t\tif rawHost == \"::1\" {", "\t\tif rawHost == \"::1\" && false {")

# ---- C18 -------------------------------------------------------------------
mut("c18-clientauth-verify-if-given", ["C18"], "testdirectory/testing.go",
    "serverTLSConf.ClientAuth = tls.RequireAndVerifyClientCert", "serverTLSConf.ClientAuth = tls.VerifyClientCertIfGiven")
mut("c18-clientauth-request-only", ["C18"], "testdirectory/testing.go",
    "serverTLSConf.ClientAuth = tls.RequireAndVerifyClientCert", "serverTLSConf.ClientAuth = tls.RequireAnyClientCert")
mut("c18-clientcas-not-set", ["C18"], "testdirectory/testing.go",
    "\t\tserverTLSConf.ClientCAs = certpool\n", "")
mut("c18-withtlsconfig-ignored", ["C18"], "server.go",
    "\tif opts.withTLSConfig != nil {\n\t\ts.logger.Debug(\"setting up TLS listener\", \"op\", op)", "\tif opts.withTLSConfig != nil && opts.withTLSConfig.ClientAuth != tls.NoClientCert {\n\t\ts.logger.Debug(\"setting up TLS listener\", \"op\", op)")
mut("c18-directory-mtls-option-dropped", ["C18"], "testdirectory/directory.go",
    "\tserverTLSConfig, clientTLSConfig := GetTLSConfig(t, opt...)\n", "\tserverTLSConfig, clientTLSConfig := GetTLSConfig(t, opt...)\n\tserverTLSConfig.ClientAuth = tls.RequestClientCert\n")

# ---- C12 -------------------------------------------------------------------
mut("c12-connwg-done-before-close", ["C12"], "server.go",
    "\t\t\t\terr := conn.close()\n", "\t\t\t\ts.connWg.Done()\n\t\t\t\ts.connWg.Add(1)\n\t\t\t\terr := conn.close()\n")
mut("c12-connwg-done-before-onclose", ["C12"], "server.go",
    "\t\t\t\tif s.onCloseHandler != nil {\n\t\t\t\t\ts.onCloseHandler(localConnID)\n\t\t\t\t}",
    "\t\t\t\tif s.onCloseHandler != nil {\n\t\t\t\t\tgo s.onCloseHandler(localConnID)\n\t\t\t\t}")
mut("c12-connwg-wait-removed", ["C12"], "server.go",
    "\ts.connWg.Wait()\n", "")
mut("c12-listener-not-closed-when-already-cancelled", ["C12"], "server.go",
    "\t\t\t_ = s.listener.Close()\n\t\t\treturn nil", "\t\t\treturn nil")
mut("c12-second-stop-errors", ["C12"], "server.go",
    "case !strings.Contains(err.Error(), \"use of closed network connection\"):", "case true:")
mut("c12-stop-skips-wait-when-listener-already-closed", ["C12"], "server.go",
    "\t\t\tdefault:\n\t\t\t\ts.logger.Debug(\"listener already closed\")", "\t\t\tdefault:\n\t\t\t\ts.logger.Debug(\"listener already closed\")\n\t\t\t\treturn nil")

# ---- C07 -------------------------------------------------------------------
mut("c07-connection-level-recover-removed", ["C07"], "server.go",
    "\t\t\tif !s.disablePanicRecovery {\n\t\t\t\t// catch and report panics", "\t\t\tif false {\n\t\t\t\t// catch and report panics")
mut("c07-per-request-recover-removed", ["C07"], "conn.go",
    "\t\t\t\tif !c.disablePanicRecovery {\n", "\t\t\t\tif false {\n")
mut("c07-per-request-recover-only-for-search", ["C07"], "conn.go",
    "\t\t\t\tif !c.disablePanicRecovery {\n", "\t\t\t\tif !c.disablePanicRecovery && r.routeOp != deleteRouteOperation {\n")
mut("c07-accept-retry-removed", ["C07"], "server.go",
    "if ne, ok := err.(net.Error); ok && ne.Temporary() { //nolint:staticcheck", "if ne, ok := err.(net.Error); ok && ne.Temporary() && false { //nolint:staticcheck")
mut("c07-panic-after-write-keeps-writer-lock", ["C07", "C05"], "response.go",
    "\trw.writerMu.Lock()\n\tdefer rw.writerMu.Unlock()\n", "\trw.writerMu.Lock()\n\tdefer func() {\n\t\tif rw.requestID%7 != 0 {\n\t\t\trw.writerMu.Unlock()\n\t\t}\n\t}()\n")

# ---- C11 -------------------------------------------------------------------
mut("c11-unblocking-step-removed", ["C11"], "server.go",
    "\t\t\t\t_ = c.SetReadDeadline(time.Now())\n\t\t\t\t_ = c.SetWriteDeadline(time.Now().Add(shutdownWriteGrace))\n", "")
mut("c11-only-read-deadline", ["C11"], "server.go",
    "\t\t\t\t_ = c.SetWriteDeadline(time.Now().Add(shutdownWriteGrace))\n", "")
mut("c11-only-write-deadline", ["C11"], "server.go",
    "\t\t\t\t_ = c.SetReadDeadline(time.Now())\n", "")
mut("c11-retry-read-forever-on-shutdown", ["C11"], "conn.go",
    "\t\tselect {\n\t\tcase <-c.shutdownCtx.Done():\n\t\t\tc.logger.Debug(\"received shutdown cancellation\"", "\t\tselect {\n\t\tcase <-doneUnless(c.shutdownCtx, requestID > 3):\n\t\t\tc.logger.Debug(\"received shutdown cancellation\"",
    more=[("conn.go", "func (c *conn) readRequest(", "func doneUnless(ctx context.Context, b bool) <-chan struct{} {\n\tif b {\n\t\treturn nil\n\t}\n\treturn ctx.Done()\n}\n\nfunc (c *conn) readRequest(")])

mut("c11-stop-does-not-wait-for-accept-loop", ["C11"], "server.go",
    "\t\t<-s.acceptDone\n", "")
mut("c11-timeouts-applied-after-watcher-start", ["C11"], "server.go",
    "\t\t\tif deadlineErr != nil {\n",
    "\t\t\tif s.readTimeout != 0 {\n\t\t\t\t_ = c.SetReadDeadline(time.Now().Add(s.readTimeout))\n\t\t\t}\n\t\t\tif deadlineErr != nil {\n")
mut("c03-mux-shared-counter-map", ["C03", "C15"], "mux.go",
    "func (m *Mux) serve(w *ResponseWriter, req *Request) {\n",
    "var muxServed = map[routeOperation]int{}\n\nfunc (m *Mux) serve(w *ResponseWriter, req *Request) {\n\tmuxServed[req.routeOp]++\n")

# ---- C15 -------------------------------------------------------------------
mut("c15-initconn-lock-removed", ["C15"], "conn.go",
    "\tc.mu.Lock()\n\tdefer c.mu.Unlock()\n\tc.netConn = netConn", "\tc.netConn = netConn")
mut("c15-ready-lock-removed", ["C15"], "server.go",
    "\ts.mu.RLock()\n\tdefer s.mu.RUnlock()\n\treturn s.listenerReady", "\treturn s.listenerReady")
mut("c15-write-lock-removed", ["C15"], "response.go",
    "\trw.writerMu.Lock()\n\tdefer rw.writerMu.Unlock()\n", "")
mut("c15-setusers-lock-removed", ["C15"], "testdirectory/directory.go",
    "\td.mu.Lock()\n\tdefer d.mu.Unlock()\n\td.users = users", "\td.users = users")
mut("c15-handlebind-lock-removed", ["C15"], "testdirectory/directory.go",
    "\t\t\t_ = w.Write(resp)\n\t\t}()\n\t\td.mu.RLock()\n\t\tdefer d.mu.RUnlock()\n", "\t\t\t_ = w.Write(resp)\n\t\t}()\n")
mut("c15-stop-reads-listener-without-lock", ["C15"], "server.go",
    "\tconst op = \"gldap.(Server).Stop\"\n\ts.mu.RLock()\n\tdefer s.mu.RUnlock()\n", "\tconst op = \"gldap.(Server).Stop\"\n")
mut("c15-panic-log-formats-conn", ["C15"], "server.go",
    "fmt.Sprintf(\"%s: %+v\", c.RemoteAddr(), r)", "fmt.Sprintf(\"%+v: %+v\", c, r)")
mut("c15-getter-lock-removed", ["C15"], "testdirectory/directory.go",
    "func (d *Directory) Groups() []*gldap.Entry {\n\td.mu.RLock()\n\tdefer d.mu.RUnlock()\n", "func (d *Directory) Groups() []*gldap.Entry {\n")

# ---- C14 -------------------------------------------------------------------
mut("c14-managedsait-criticality-dropped-on-decode", ["C14", "C01"], "control.go",
    "return NewControlManageDsaIT(WithCriticality(Criticality))", "return NewControlManageDsaIT()")
mut("c14-cookie-truncated", ["C14"], "control.go",
    "c.Cookie = value.Children[1].Data.Bytes()", "c.Cookie = value.Children[1].Data.Bytes()\n\t\tif len(c.Cookie) > 200 {\n\t\t\tc.Cookie = c.Cookie[:200]\n\t\t}")
mut("c14-pagesize-through-int32", ["C14"], "control.go",
    "c.PagingSize = uint32(pagingSize)", "c.PagingSize = uint32(int32(pagingSize) & 0x7fffffff)")
mut("c14-grace-expire-tags-swapped-encode", ["C14"], "control.go",
    "contextPacket.AppendChild(ber.NewInteger(ber.ClassContext, ber.TypePrimitive, 0x01, c.grace, \"\"))",
    "contextPacket.AppendChild(ber.NewInteger(ber.ClassContext, ber.TypePrimitive, 0x00, c.grace, \"\"))")
mut("c14-error-string-not-set", ["C14", "C01"], "control.go",
    "c.errorString = BeheraPasswordPolicyErrorMap[c.error]\n", "")
mut("c14-controls-order-reversed-encode", ["C14", "C04"], "control.go",
    "for _, control := range controls {\n\t\tpacket.AppendChild(control.Encode())\n\t}",
    "for i := len(controls) - 1; i >= 0; i-- {\n\t\tpacket.AppendChild(controls[i].Encode())\n\t}")
mut("c14-behera-ctor-allows-error-9", ["C14"], "control.go",
    "case opts.withErrorCode > 8:", "case opts.withErrorCode > 9:")
mut("c14-behera-ctor-grace-and-error", ["C14"], "control.go",
    "case opts.withGrace != -1 && opts.withErrorCode != -1:", "case opts.withGrace != -1 && opts.withErrorCode > 3:")
mut("c14-generic-criticality-encode-dropped", ["C14"], "control.go",
    "\tpacket.AppendChild(ber.NewString(ber.ClassUniversal, ber.TypePrimitive, ber.TagOctetString, c.ControlType, \"Control Type (\"+ControlTypeMap[c.ControlType]+\")\"))\n\tif c.Criticality {",
    "\tpacket.AppendChild(ber.NewString(ber.ClassUniversal, ber.TypePrimitive, ber.TagOctetString, c.ControlType, \"Control Type (\"+ControlTypeMap[c.ControlType]+\")\"))\n\tif c.Criticality && c.ControlValue == \"\" {")
mut("c14-vchu-expire-int32", ["C14"], "control.go",
    "c.Expire = expire\n", "c.Expire = int64(int32(expire))\n")

# ---- C16 -------------------------------------------------------------------
mut("c16-convertstring-len-check-removed", ["C16"], "request.go",
    "if read >= len(bytes) {\n\t\t\t\treturn 0, read, errors.New(\"truncated long-form length\")\n\t\t\t}\n", "")
mut("c16-newentry-unsorted", ["C16"], "entry.go", "sort.Strings(attributeNames)", "_ = sort.Strings")
mut("c16-addvalue-skips-bytes-on-empty", ["C16"], "entry.go",
    "e.ByteValues = append(e.ByteValues, []byte(v))", "if v != \"\" {\n\t\t\te.ByteValues = append(e.ByteValues, []byte(v))\n\t\t}")
mut("c16-sid-authority-high-byte", ["C16"], "sid.go",
    "identifierAuthorityParts[2] = identifierAuthority", "identifierAuthorityParts[2] = identifierAuthority & 0x7fff")
mut("c16-convert-longform-off-by-one", ["C16"], "request.go",
    "converted = append(converted, string(data[(startOfDataIdx+strDataLen):]))",
    "if strDataLen > 3 {\n\t\t\t\tstrDataLen--\n\t\t\t}\n\t\t\tconverted = append(converted, string(data[(startOfDataIdx+strDataLen):]))")
mut("c16-extended-response-nil-code-deref", ["C16"], "request.go",
    "resp := &ExtendedResponse{\n\t\tbaseResponse: &baseResponse{\n\t\t\tmessageID: r.message.GetID(),\n\t\t},\n\t}\n\tif opts.withResponseCode != nil {\n\t\tresp.code = int16(*opts.withResponseCode)\n\t}",
    "resp := &ExtendedResponse{\n\t\tbaseResponse: &baseResponse{\n\t\t\tmessageID: r.message.GetID(),\n\t\t},\n\t}\n\tresp.code = int16(*opts.withResponseCode)")


def sh(cmd, cwd=None, env=None, timeout=None):
    e = dict(os.environ)
    e.update({"GOFLAGS": "-mod=mod", "GOPROXY": "off", "GOSUMDB": "off", "GOTOOLCHAIN": "local"})
    if env:
        e.update(env)
    p = subprocess.run(cmd, cwd=cwd, env=e, stdout=subprocess.PIPE, stderr=subprocess.STDOUT, timeout=timeout)
    return p.returncode, p.stdout.decode("utf-8", "replace")


def main():
    ap = argparse.ArgumentParser()
    ap.add_argument("--only", default="")
    ap.add_argument("--props", default="")
    ap.add_argument("--suite", action="store_true", help="also run the repository's suite on the mutant")
    ap.add_argument("--tier", default="quick")
    args = ap.parse_args()
    rc, out = sh(["git", "-C", REPO, "status", "--porcelain"])
    if out.strip():
        print("refusing: /repo working tree is not clean:\n" + out)
        return 2
    want_props = set(filter(None, args.props.split(",")))
    results = []
    # evidence files must describe runs on the unchanged tree: keep them aside
    import shutil
    import tempfile
    keep = tempfile.mkdtemp(prefix="evidence-keep-", dir=os.path.join(VERIF, ".scratch") if os.path.isdir(os.path.join(VERIF, ".scratch")) else None)
    shutil.copytree(os.path.join(VERIF, "evidence"), os.path.join(keep, "evidence"))
    try:
        return run_all(args, want_props, results)
    finally:
        shutil.rmtree(os.path.join(VERIF, "evidence"), ignore_errors=True)
        shutil.copytree(os.path.join(keep, "evidence"), os.path.join(VERIF, "evidence"))
        shutil.rmtree(keep, ignore_errors=True)
        shutil.rmtree(os.path.join(VERIF, "replays", "found"), ignore_errors=True)


def run_all(args, want_props, results):
    for m in M:
        if args.only and args.only not in m["name"]:
            continue
        props = [p for p in m["props"] if not want_props or p in want_props]
        if not props:
            continue
        missing = [f for (f, o, n, c) in m["edits"] if open(os.path.join(REPO, f)).read().count(o) < 1]
        if missing:
            print(f"{m['name']}: PATTERN NOT FOUND in {missing}")
            results.append(dict(name=m["name"], error="pattern not found"))
            continue
        try:
            for (f, o, n, c) in m["edits"]:
                path = os.path.join(REPO, f)
                src = open(path).read()
                open(path, "w").write(src.replace(o, n, c))
            rc, out = sh(["go", "build", "./..."], cwd=REPO)
            if rc != 0:
                print(f"{m['name']}: DOES NOT COMPILE\n{out[-800:]}")
                results.append(dict(name=m["name"], error="does not compile"))
                continue
            suite = None
            if args.suite:
                rc, out = sh(["go", "test", "-vet=off", "-count=1", "./..."], cwd=REPO, env={"GOFLAGS": ""}, timeout=900)
                suite = (rc == 0)
            row = dict(name=m["name"], suite_passes=suite, checks={})
            for p in props:
                t0 = time.time()
                rc, out = sh([os.path.join(VERIF, "check"), p, "--tier", args.tier], cwd=VERIF, timeout=3600, env={"VERIF_NO_SAVED": "1"})
                fps = [l for l in out.splitlines() if l.startswith("[driver] violation")]
                row["checks"][p] = dict(rc=rc, wall_s=round(time.time() - t0, 1), first=(fps[0][:300] if fps else out[-300:]))
            killed = [p for p, r in row["checks"].items() if r["rc"] == 1]
            status = "KILLED by " + ",".join(killed) if killed else "SURVIVED"
            print(f"{m['name']}: suite={'pass' if suite else ('FAIL' if suite is False else 'n/a')} {status} " +
                  " ".join(f"{p}:rc={r['rc']}/{r['wall_s']}s" for p, r in row["checks"].items()), flush=True)
            if not killed:
                for p, r in row["checks"].items():
                    print("    ", p, r["first"][:300].replace("\n", " | "))
            results.append(row)
        finally:
            sh(["git", "-C", REPO, "checkout", "--", "."])
    with open(os.path.join(VERIF, "tools", "mutants_results.json"), "w") as f:
        json.dump(results, f, indent=1)
    return 0


if __name__ == "__main__":
    sys.exit(main())
