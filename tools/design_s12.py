#!/usr/bin/env python3
"""Rewrites DESIGN.md §12 (seeded changes) from seeded/*/meta.json."""
import json
import os
import subprocess

VERIF = os.path.dirname(os.path.dirname(os.path.abspath(__file__)))
p = os.path.join(VERIF, "DESIGN.md")
s = open(p).read()
marker = "\n--------------------------------------------------------------------------------\n\n## 12."
if marker in s:
    s = s[:s.index(marker)]
metas = []
for sid in sorted(os.listdir(os.path.join(VERIF, "seeded"))):
    mp = os.path.join(VERIF, "seeded", sid, "meta.json")
    if os.path.exists(mp):
        metas.append(json.load(open(mp)))
n = len(metas)
r1 = [m for m in metas if m.get("round") == 1]
r2 = [m for m in metas if m.get("round") == 2]
r3 = [m for m in metas if m.get("round") == 3]
r4 = [m for m in metas if m.get("round") == 4]
r5 = [m for m in metas if m.get("round") == 5]


def verdict(m, label=""):
    k = f"{m['breaks_property']}/quick" + (f"@{label}" if label else "")
    return m.get("checks", {}).get(k, {}).get("verdict", "?")


caught_now = sum(1 for m in metas if verdict(m) == "CAUGHT")
r1_first = sum(1 for m in r1 if "first built" in m.get("history", ""))
r2_before = sum(1 for m in r2 if verdict(m, "before-round2-strengthening") == "CAUGHT")
r3_before = sum(1 for m in r3 if verdict(m, "before-round3-strengthening") == "CAUGHT")
r4_before = sum(1 for m in r4 if verdict(m, "before-round4-strengthening") == "CAUGHT")
r5_before = sum(1 for m in r5 if verdict(m, "before-round5-strengthening") == "CAUGHT")
missed_now = [m["id"] for m in metas if verdict(m) != "CAUGHT"]
table = subprocess.run(["python3", os.path.join(VERIF, "tools", "seeded_table.py")], stdout=subprocess.PIPE).stdout.decode()
s += f'''
--------------------------------------------------------------------------------

## 12. Seeded changes: which check catches which change

{n} changes to gldap (eight per property in four rounds, and a fifth round of one more for eight properties) were produced by fresh
sub-agents that were given **only the text of one property** and a scratch
worktree of `/repo` - nothing from `/verif` - and asked for a change that still
compiles, still passes the repository's suite and breaks the property in a way
that needs something specific to manifest (an interleaving, a fault at a
particular point, a multi-step sequence, an unusual input, two cooperating
sites), together with a demonstration. The second, third and fourth round were
additionally told which ideas the earlier rounds had already used, and the
third and fourth were asked for the subtlest change they could still demonstrate
(narrow trigger regions welcome as long as they lie inside the property's own domain).
Each change was confirmed before
it was kept (`tools/seeded.py confirm`: fresh worktree of `/repo` HEAD outside
`/repo` and `/verif`, patch applies, `go build ./...`, repository suite passes
with the patch - 2 of at most 3 runs, the repository's own suite collides on
ports now and then on a busy machine -, demonstration fails with the patch and
passes without it); all {n} were confirmed. When a later `fix:` commit to
`/repo` made a kept patch inapplicable (14 patches after the two repairs of
hour 10), `tools/seeded.py rebase` re-applied it with a three-way merge in a
scratch worktree (six by hand where the merge conflicted), re-ran build, suite
and demonstration and rewrote `patch.diff` (`meta.json: rebased`). They are kept as
`seeded/<id>/{{patch.diff, demo_test.go, NOTES.md, meta.json}}`; none is ever
committed to `/repo`. To run the checks against one:
`git -C /repo apply /verif/seeded/<id>/patch.diff; ./check <prop> --tier quick;
git -C /repo checkout -- .` (`tools/seeded.py run <id>` does exactly that and
restores the evidence files afterwards).

**Round 1** ({len(r1)} changes). First run of the quick tier as first built
(seed 1): {r1_first} caught, {len(r1) - r1_first} not. **Round 2** ({len(r2)} changes). The
quick tier as it stood after round 1 (checkout of `/verif` at `79f8b6f`, run
with `tools/seeded.py run --check-dir`): {r2_before} caught, {len(r2) - r2_before} missed.
**Round 3** ({len(r3)} changes). The quick tier as it stood after round 2
(checkout at `8b2cefa`): {r3_before} caught, {len(r3) - r3_before} missed.
**Round 4** ({len(r4)} changes, produced in the last two hours of the work). The quick
tier as it stood after round 3 (checkout at `eae04cf`; evaluated in parallel
*lanes* - pairs of scratch worktrees of `/repo` and `/verif`, `tools/lanes.sh`,
`tools/seeded.py run --repo --check-dir` - so that four changes can be evaluated
at once without touching `/repo`): {r4_before} caught, {len(r4) - r4_before} missed.
**Round 5** ({len(r5)} changes, for the eight properties whose round-4 changes had
been missed most, against the checks as strengthened by round 4): {r5_before} caught,
{len(r5) - r5_before} missed (C09-i: a handler that outlives its connection while its
connection state is recycled; C10-i: a handler busy for more than 3 s behind
the Unbind; C14-i: decoding with a debug-level logger; C17-i: a port held on one
address family only) - all caught after the additions of §9.1.
The misses were not accidents of the seed; each pointed at a region of the
property's own domain that the generator did not reach. The checks were
strengthened by widening the *generators and scenario families* along the
property's quantifier - never by special-casing a patch - first from the
sub-agents' descriptions, then from the remaining misses; in the last complete
run (seed 1) the quick tier catches **{caught_now} of {n}**{(" (not caught: " + ", ".join(missed_now) + " - see below)") if missed_now else ""}. What was added is listed per property in the "As built" notes of §4
and per change in `meta.json` (`history`). `C04-h` is kept but disputed: it
lets `WithApplicationCode` override the tag of a *modify* response, and the
statement of C04 reads "the one belonging to that constructor (or the
application code given)" - under that wording the changed tree still satisfies
the property, so the check (which only generates the options each constructor
documents) is not widened to call it a violation. The lessons that generalise:

* *The object has a history* (round 4: C14-g, C03-g, C19-g, C09-g/h, C10-g/h):
  a control that is encoded, modified in place and encoded again; a route
  registered on a mux that is already serving; a password changed over LDAP
  before the bind; a connection that never sent a request but still owns an ID;
  a second server starting in the same process; an earlier handler of the
  connection that panicked or whose write failed before the Unbind arrives.
  Every check whose case was "build, use once, judge" got a second use.
* *Hostile values in harmless places* (C07-g, C14-h, C17-g, C18-g): a panic
  value whose `Error()` panics, a decimal string with leading zeros, junk
  between `]` and the port colon, a certificate chain padded with somebody
  else's public certificate.
* *Seconds, not milliseconds* (C13-h, C08-h, C05-h, C17-h, C11-g): budgets a
  maintainer would plausibly pick (2 s, 5 s) are only crossed by scenarios
  whose handlers, stalls and idle periods last that long; one case in a few
  dozen is enough, and it keeps the quick tier under a minute per property.
* *A synchronisation in the harness is an edge in the race detector* (C15-g,
  again): the gate that released the late writers was opened by a channel
  from the StartTLS handler - which ordered the very accesses the part was
  meant to expose. The gate is now opened by the clock alone.
* *Inconclusive is not a verdict* (C11-g): TLS sessions that do not read cost
  crypto/tls's five close_notify seconds per Close; scenarios containing them
  ended as "too slow to judge" until their first bound was made 7 s - only then
  do they count, and only then does serialising those five seconds show.

* *The moment of Stop* (round 3, and the sweep of hour 10): connections that
  exist *before* Stop is called say nothing about a connection the accept loop
  is still registering when Stop arrives - clients must also connect *while*
  Stop runs, in storms, with the collector off (C11-late, C12-f; two genuine
  defects of the tree were found this way, §10).
* *Retry, wrap-around, shortage* (C17-e/f, C09-e): a second Run on the same
  Server after a failed one, a connection counter past 2¹⁶, and a descriptor
  shortage that lasts longer than a retry budget are all ordinary life for a
  long-running server.
* *What the client should not do* (C13-e, C18-e/f, C10-e): plaintext behind the
  StartTLS request, a foreign SNI, half a TLS record, an Unbind behind sixteen
  running handlers - the property's "hostile or careless client" has to be
  generated too, and the oracle must then separate what the statement promises
  from what the client did to itself (§11, 12).
* *Fatal is not panic* (C16-f): a Go fatal error cannot be recovered, so
  concurrent use of constructors is run in a child process.

* *Blocking many, not blocking deep* (C06-a): a reversed wait chain looks like
  the worst case but only ever blocks two handlers; "all wait for the last"
  is needed to hold 255 handlers of one connection at once.
* *The end of a burst* (C05-b): multiset equality catches a frame left in a
  buffer only if nothing is written afterwards - repeat the burst on the same
  connection and make the bursts end with many simultaneous small writes.
* *A finalizer is not a close* (C08-b): a descriptor census taken after a
  garbage collection proves nothing; the collector is off during the scenario.
* *The connection that ends at the moment of dispatch* (C08-a, C10-b, C12-b):
  scenarios that wait until handlers have entered before ending the connection
  cannot see a missing registration of an in-flight handler; pipelining the
  ending behind the request does.
* *A client that resumes reading rescues the server* (C08-d, C11-a): "not
  reading" must last until the verdict; a harness client that drains the socket
  after a pause un-parks the very handlers whose interruption is under test.
* *Happens-before hides races* (C15-a): in an in-order scenario the goroutine
  that calls Stop is causally downstream of the client traffic, so the detector
  has an incidental edge; a stopper goroutine started before the clients and
  driven by a timer only has none.
* *One connection at a time hides shared state* (C14-d, C16-d, C19-d, C01-d,
  C03-d): package-level scratch buffers, pools and hoisted variables only fail
  when several connections or goroutines are in the same code at once - every
  input property got a concurrent variant.
* *History* (C03-c, C01-c, C04-c): caches and "recently used" shortcuts need a
  generated *order* of requests on one mux / one process and write-modify-write
  on one response object; a fixed request order and single writes miss them.
* *Second-order states and configurations* (C11-a/b/c, C13-a/b/c, C05-d): "not
  reading" alone does not cover "not reading and already said goodbye" or "with
  a handshake pending"; delays must cross the implementation's plausible
  timeouts (hundreds of ms, a second); options such as the logger level or
  read/write timeouts are part of the configuration space.
* *Argument types and sizes* (C16-b/c, C17-a, C20-c): `uint` options, port
  numbers, sub-authority counts and value lengths need values beyond the int /
  uint16 / uint8 / 127-byte ranges.
* *Realistic neighbours* (C18-a/d, C17-c): the "other CA" that matters is one
  produced by the same generator or living in the same process; the "port in
  use" that matters may be held by another gldap server; a hostile client
  presents its certificate even when the server's CA list does not match.

''' + table + '''
Verdicts are from `tools/seeded.py run` on this sandbox (seed 1); wall times
per change are in `meta.json` (2-250 s: a caught change costs the shrink budget
and, for hangs, the bounded waits). The column entry
`@before-round2-strengthening` is the quick tier as it stood after round 1.
The hand-written sensitivity mutants of §8/§11 (`tools/mutants.py`) are a third,
larger set (about 120) that the quick tier kills completely apart from the
documented equivalent ones.
'''
open(p, "w").write(s)
print("rewrote §12:", n, "changes,", caught_now, "caught now")
