package props

import (
	"crypto/tls"
	"fmt"
	"net"
	"runtime"
	"strings"
	"sync"
	"sync/atomic"
	"testing"
	"time"

	"github.com/hashicorp/go-hclog"
	"github.com/jimlambrt/gldap"
	"pgregory.net/rapid"

	"verifharness/lab"
)

type c17Case struct {
	Form        string `json:"form"` // address template with %d for the port, or a fixed malformed string
	Valid       bool   `json:"valid"`
	PortInUse   bool   `json:"port_in_use"`
	HeldByGldap bool   `json:"held_by_gldap"` // the port is held by another running gldap server instead of a plain listener
	PortAdd     int    `json:"port_add"`      // added to the port number in the address text (65536: out of range)
	TLS         bool   `json:"tls"`           // Run is given WithTLSConfig
	Pollers     int    `json:"pollers"`
	GoMaxProcs  int    `json:"gomaxprocs"`
	SpinBefore  int    `json:"spin_before"` // scheduler yields between starting the pollers and calling Run
}

var c17Valid = []string{"127.0.0.1:%d", "localhost:%d", ":%d", "[::1]:%d", "::1:%d", "0.0.0.0:%d", "[::]:%d"}
var c17Malformed = []string{"", "127.0.0.1", "127.0.0.1:", "[::1]", "[::1:%d", "999.1.1.1:%d", "1.2.3:%d", "not a host:%d", ":::%d", "[zz]:%d", "localhost", "::1", "256.256.256.256:%d", "[]:%d", "1.2.3.4.5:%d"}

func c17Exec(c c17Case, st *lab.Stats) *lab.Fail {
	if c.GoMaxProcs > 0 {
		defer runtime.GOMAXPROCS(runtime.GOMAXPROCS(c.GoMaxProcs))
	}
	port, err := lab.FreeLocalPort()
	if err != nil {
		st.Inconclusive(err.Error())
		return nil
	}
	var hold []net.Listener
	if c.PortInUse && c.HeldByGldap {
		// another gldap server of this process already serves on every loopback family of that port
		var others []*gldap.Server
		for _, a := range []string{fmt.Sprintf("127.0.0.1:%d", port), fmt.Sprintf("[::1]:%d", port)} {
			o, err := gldap.NewServer(gldap.WithLogger(hclog.NewNullLogger()))
			if err != nil {
				st.Inconclusive(err.Error())
				return nil
			}
			others = append(others, o)
			go func(o *gldap.Server, a string) { _ = o.Run(a) }(o, a)
		}
		defer func() {
			for _, o := range others {
				done := make(chan struct{})
				go func(o *gldap.Server) { _ = o.Stop(); close(done) }(o)
				select {
				case <-done:
				case <-time.After(10 * time.Second):
				}
			}
		}()
		dl := time.Now().Add(5 * time.Second)
		for _, o := range others {
			for !o.Ready() && time.Now().Before(dl) {
				time.Sleep(100 * time.Microsecond)
			}
			if !o.Ready() {
				st.Inconclusive("the port-holding gldap server did not start")
				return nil
			}
		}
	} else if c.PortInUse {
		// hold the port on every loopback family so that any valid form collides
		for _, a := range []string{fmt.Sprintf("127.0.0.1:%d", port), fmt.Sprintf("[::1]:%d", port)} {
			if l, err := net.Listen("tcp", a); err == nil {
				hold = append(hold, l)
			}
		}
		if len(hold) < 2 {
			for _, l := range hold {
				l.Close()
			}
			st.Inconclusive("cannot hold the port on both loopback families")
			return nil
		}
		defer func() {
			for _, l := range hold {
				l.Close()
			}
		}()
	}
	addr := c.Form
	if strings.Contains(addr, "%d") {
		addr = fmt.Sprintf(addr, port+c.PortAdd)
	}
	var runOpts []gldap.Option
	var clientTLS *tls.Config
	if c.TLS {
		pki, _, err := lab.SharedPKI()
		if err != nil {
			st.Inconclusive(err.Error())
			return nil
		}
		runOpts = append(runOpts, gldap.WithTLSConfig(pki.ServerTLS()))
		clientTLS = pki.ClientTLS(false)
	}
	mux, _ := gldap.NewMux()
	var served int32
	_ = mux.Bind(func(w *gldap.ResponseWriter, r *gldap.Request) {
		atomic.AddInt32(&served, 1)
		_ = w.Write(r.NewBindResponse(gldap.WithResponseCode(gldap.ResultSuccess)))
	})
	s, err := gldap.NewServer(gldap.WithLogger(hclog.NewNullLogger()))
	if err != nil {
		st.Inconclusive(err.Error())
		return nil
	}
	_ = s.Router(mux)
	nt := !c.Valid || c.PortInUse || c.Pollers > 0
	st.Case(nt, lab.JSONKey(c), "form="+c.Form, fmt.Sprintf("valid=%v", c.Valid), fmt.Sprintf("inuse=%v", c.PortInUse), fmt.Sprintf("pollers=%d", c.Pollers), fmt.Sprintf("tls=%v", c.TLS), fmt.Sprintf("portadd=%d", c.PortAdd))
	st.Sample(c)
	if s.Ready() {
		return lab.Failf("ready-before-run", "Ready() is true before Run was called")
	}
	var stop int32
	var sawTrue int32
	var dialFail atomic.Value // string
	var wg sync.WaitGroup
	probe := func() string {
		a := s.VerifListenAddr()
		if a == nil {
			return "Ready() == true but the server has no listener"
		}
		target := a.String()
		if h, p, err := net.SplitHostPort(target); err == nil && (h == "::" || h == "0.0.0.0" || h == "") {
			target = net.JoinHostPort("127.0.0.1", p)
			if h == "::" && strings.HasPrefix(c.Form, "[::]") {
				target = net.JoinHostPort("::1", p)
			}
		}
		var cl *lab.Client
		var err error
		if clientTLS != nil {
			cl, err = lab.DialTLS(target, clientTLS)
		} else {
			cl, err = lab.Dial(target)
		}
		if err != nil {
			return fmt.Sprintf("Ready() == true but dialing %s fails: %v", target, err)
		}
		defer cl.Close()
		_ = cl.Send(simpleReq("bind", 1).Bytes())
		m, err := cl.Next(10 * time.Second)
		if err != nil || m.ID != 1 {
			return fmt.Sprintf("Ready() == true, connected to %s, but the bind was not served: %v", target, err)
		}
		return ""
	}
	for i := 0; i < c.Pollers; i++ {
		wg.Add(1)
		go func() {
			defer wg.Done()
			for atomic.LoadInt32(&stop) == 0 {
				if c.GoMaxProcs <= 2 {
					runtime.Gosched() // a pure spin on 1-2 Ps costs a 10 ms preemption slice per poller and step
				}
				if s.Ready() {
					first := atomic.CompareAndSwapInt32(&sawTrue, 0, 1)
					if first {
						if msg := probe(); msg != "" {
							dialFail.Store(msg)
						}
					}
					return
				}
			}
		}()
	}
	for i := 0; i < c.SpinBefore; i++ {
		runtime.Gosched()
	}
	runErr := make(chan error, 1)
	go func() { runErr <- s.Run(addr, runOpts...) }()
	var rerr error
	returned := false
	// wait until Run has returned or the server reports Ready (hostname forms
	// may take up to 1 s in validateAddrPort's resolver lookup)
	deadline := time.Now().Add(10 * time.Second)
	for !s.Ready() && !returned {
		select {
		case rerr = <-runErr:
			returned = true
		default:
			if time.Now().After(deadline) {
				atomic.StoreInt32(&stop, 1)
				wg.Wait()
				st.Inconclusive(fmt.Sprintf("Run(%q) neither returned nor became ready in 10 s", addr))
				return nil
			}
			time.Sleep(50 * time.Microsecond)
		}
	}
	if !returned {
		// Ready is true: did Run fail at the same moment?
		select {
		case rerr = <-runErr:
			returned = true
		case <-time.After(2 * time.Millisecond):
		}
	}
	if returned {
		// Run returned: with a nil error only after Stop (not called) -> treat nil as harness trouble
		time.Sleep(time.Millisecond)
		atomic.StoreInt32(&stop, 1)
		wg.Wait()
		if rerr == nil {
			return lab.Failf("run-returned-nil", "Run(%q) returned nil although Stop was never called", addr)
		}
		if atomic.LoadInt32(&sawTrue) == 1 {
			return lab.Failf("ready-true-but-run-failed", "Run(%q) failed (%v) but a poller observed Ready() == true", addr, rerr)
		}
		if s.Ready() {
			return lab.Failf("ready-true-after-run-failed", "Run(%q) failed (%v) and Ready() is true afterwards", addr, rerr)
		}
		if c.Valid && !c.PortInUse {
			st.Class("valid-address-rejected:" + c.Form)
			if !strings.Contains(rerr.Error(), "in use") {
				return lab.Failf("valid-address-rejected", "Run(%q) failed for a valid address: %v", addr, rerr)
			}
		}
		return nil
	}
	// serving
	defer func() {
		done := make(chan struct{})
		go func() { _ = s.Stop(); close(done) }()
		select {
		case <-done:
		case <-time.After(10 * time.Second):
		}
	}()
	// pollers finish their probe
	wg.Wait()
	atomic.StoreInt32(&stop, 1)
	if v := dialFail.Load(); v != nil {
		return lab.Failf("ready-but-not-listening", "Run(%q): %s", addr, v.(string))
	}
	if msg := probe(); msg != "" {
		return lab.Failf("ready-but-not-listening", "Run(%q): %s", addr, msg)
	}
	if !c.Valid || c.PortInUse {
		return lab.Failf("invalid-address-accepted", "Run(%q) (valid=%v, port in use=%v) is serving", addr, c.Valid, c.PortInUse)
	}
	return nil
}

func TestC17(t *testing.T) {
	lab.Prop[c17Case]{
		ID: "C17", Part: "ready",
		Rule: "rapid: listen addresses valid (127.0.0.1, localhost, empty host, [::1], bare ::1, 0.0.0.0, [::]), malformed (15 forms: empty, no port, empty port, unbalanced brackets, bad IPv4/IPv6, text), valid forms with an out-of-range port number (port +- 65536...) and valid-but-port-already-bound (held by a plain listener of the harness or by another running gldap server), each with and without WithTLSConfig (held by the harness on both loopback families); 0..8 poller goroutines spin on Ready() from BEFORE Run is called and the first one that sees true dials immediately; GOMAXPROCS 1/2/4/16; oracle = Ready false before Run; Ready true => dial succeeds and a bind is served; Run error => no poller ever saw true and Ready is false afterwards; non-trivial = failing address or pollers spinning before Run; distinct by hash",
		Gen: func(t *rapid.T) c17Case {
			c := c17Case{
				Pollers:    rapid.SampledFrom([]int{0, 1, 2, 4, 8}).Draw(t, "pollers"),
				GoMaxProcs: rapid.SampledFrom([]int{1, 2, 4, 16}).Draw(t, "gomaxprocs"),
				SpinBefore: rapid.SampledFrom([]int{0, 1, 3, 10}).Draw(t, "spin"),
			}
			// malformed forms cost ~1 s each (resolver timeout in validateAddrPort): lower weight
			c.TLS = rapid.IntRange(0, 2).Draw(t, "tls") == 0
			switch rapid.IntRange(0, 8).Draw(t, "class") {
			case 0:
				c.Form = rapid.SampledFrom(c17Malformed).Draw(t, "malformed")
			case 8:
				// a valid form whose port number is out of range: must be rejected, not wrapped
				c.Form = rapid.SampledFrom(c17Valid).Draw(t, "validform")
				c.PortAdd = rapid.SampledFrom([]int{65536, 131072, -65536, 1000000}).Draw(t, "portadd")
			case 1, 2, 3:
				c.Form, c.Valid, c.PortInUse = rapid.SampledFrom(c17Valid).Draw(t, "validform"), true, true
				c.HeldByGldap = rapid.Bool().Draw(t, "heldbygldap")
			default:
				c.Form, c.Valid = rapid.SampledFrom(c17Valid).Draw(t, "validform"), true
			}
			return c
		},
		Exec: c17Exec,
	}.Run(t)
}
