package props

import (
	"crypto/tls"
	"fmt"
	"net"
	"runtime"
	"strings"
	"sync"
	"sync/atomic"
	"testing"
	"time"

	"github.com/hashicorp/go-hclog"
	"github.com/jimlambrt/gldap"
	"pgregory.net/rapid"

	"verifharness/lab"
)

type c17Case struct {
	Form        string `json:"form"` // address template with %d for the port, or a fixed malformed string
	Valid       bool   `json:"valid"`
	PortInUse   bool   `json:"port_in_use"`
	HeldByGldap bool   `json:"held_by_gldap"` // the port is held by another running gldap server instead of a plain listener
	// HoldFamily "v4" / "v6": the (plain) holder occupies the port on ONE loopback family only (127.0.0.1 or ::1).
	// Whether a given literal form then collides is decided by a reference: net.Listen on the same address fails.
	HoldFamily string `json:"hold_family,omitempty"`
	PortAdd    int    `json:"port_add"` // added to the port number in the address text (65536: out of range)
	TLS        bool   `json:"tls"`      // Run is given WithTLSConfig
	Pollers    int    `json:"pollers"`
	GoMaxProcs int    `json:"gomaxprocs"`
	SpinBefore int    `json:"spin_before"` // scheduler yields between starting the pollers and calling Run
	// RetryValid: when the first Run fails (as it must for a malformed address or a bound port) the caller
	// retries Run on the SAME Server with a valid free address, Retries times a failing one first
	// TimeoutMs > 0: the server is configured WithReadTimeout / WithWriteTimeout of that many ms; IdleMs: once the
	// server is serving, nobody connects for that long (longer than the timeouts) and then a connection is made:
	// "from the moment Ready is true until Stop is called" has no idle limit
	TimeoutMs  int  `json:"timeout_ms,omitempty"`
	IdleMs     int  `json:"idle_ms,omitempty"`
	RetryValid bool `json:"retry_valid,omitempty"`
	Retries    int  `json:"retries,omitempty"`
}

var c17Valid = []string{"127.0.0.1:%d", "localhost:%d", ":%d", "[::1]:%d", "::1:%d", "0.0.0.0:%d", "[::]:%d"}
var c17Malformed = []string{"", "127.0.0.1", "127.0.0.1:", "[::1]", "[::1:%d", "999.1.1.1:%d", "1.2.3:%d", "not a host:%d", ":::%d", "[zz]:%d", "localhost", "::1", "256.256.256.256:%d", "[]:%d", "1.2.3.4.5:%d",
	// a bracketed literal followed by junk before the port colon
	"[::1]x:%d", "[::1]]:%d", "[::1][::1]:%d", "[::ffff:127.0.0.1]x:%d", "[::1] :%d", "[[::1]]:%d", "x[::1]:%d", "[127.0.0.1]9:%d"}

func c17Exec(c c17Case, st *lab.Stats) *lab.Fail {
	if c.GoMaxProcs > 0 {
		defer runtime.GOMAXPROCS(runtime.GOMAXPROCS(c.GoMaxProcs))
	}
	port, err := lab.FreeLocalPort()
	if err != nil {
		st.Inconclusive(err.Error())
		return nil
	}
	var hold []net.Listener
	if c.PortInUse && c.HeldByGldap {
		// another gldap server of this process already serves on every loopback family of that port
		var others []*gldap.Server
		for _, a := range []string{fmt.Sprintf("127.0.0.1:%d", port), fmt.Sprintf("[::1]:%d", port)} {
			o, err := gldap.NewServer(gldap.WithLogger(hclog.NewNullLogger()))
			if err != nil {
				st.Inconclusive(err.Error())
				return nil
			}
			others = append(others, o)
			go func(o *gldap.Server, a string) { _ = o.Run(a) }(o, a)
		}
		defer func() {
			for _, o := range others {
				done := make(chan struct{})
				go func(o *gldap.Server) { _ = o.Stop(); close(done) }(o)
				select {
				case <-done:
				case <-time.After(10 * time.Second):
				}
			}
		}()
		dl := time.Now().Add(5 * time.Second)
		for _, o := range others {
			for !o.Ready() && time.Now().Before(dl) {
				time.Sleep(100 * time.Microsecond)
			}
			if !o.Ready() {
				st.Inconclusive("the port-holding gldap server did not start")
				return nil
			}
		}
	} else if c.PortInUse {
		// hold the port on every loopback family so that any valid form collides (or on one family only)
		holders := []string{fmt.Sprintf("127.0.0.1:%d", port), fmt.Sprintf("[::1]:%d", port)}
		if c.HoldFamily == "v4" {
			holders = holders[:1]
		} else if c.HoldFamily == "v6" {
			holders = holders[1:]
		}
		for _, a := range holders {
			if l, err := net.Listen("tcp", a); err == nil {
				hold = append(hold, l)
			}
		}
		if len(hold) < len(holders) {
			for _, l := range hold {
				l.Close()
			}
			st.Inconclusive("cannot hold the port on both loopback families")
			return nil
		}
		defer func() {
			for _, l := range hold {
				l.Close()
			}
		}()
	}
	addr := c.Form
	if strings.Contains(addr, "%d") {
		addr = fmt.Sprintf(addr, port+c.PortAdd)
	}
	var runOpts []gldap.Option
	var clientTLS *tls.Config
	if c.TLS {
		pki, _, err := lab.SharedPKI()
		if err != nil {
			st.Inconclusive(err.Error())
			return nil
		}
		runOpts = append(runOpts, gldap.WithTLSConfig(pki.ServerTLS()))
		clientTLS = pki.ClientTLS(false)
	}
	mux, _ := gldap.NewMux()
	var served int32
	_ = mux.Bind(func(w *gldap.ResponseWriter, r *gldap.Request) {
		atomic.AddInt32(&served, 1)
		_ = w.Write(r.NewBindResponse(gldap.WithResponseCode(gldap.ResultSuccess)))
	})
	srvOpts := []gldap.Option{gldap.WithLogger(hclog.NewNullLogger())}
	if c.TimeoutMs > 0 {
		srvOpts = append(srvOpts, gldap.WithReadTimeout(time.Duration(c.TimeoutMs)*time.Millisecond), gldap.WithWriteTimeout(time.Duration(c.TimeoutMs)*time.Millisecond))
	}
	s, err := gldap.NewServer(srvOpts...)
	if err != nil {
		st.Inconclusive(err.Error())
		return nil
	}
	_ = s.Router(mux)
	nt := !c.Valid || c.PortInUse || c.Pollers > 0
	st.Case(nt, lab.JSONKey(c), "form="+c.Form, fmt.Sprintf("valid=%v", c.Valid), fmt.Sprintf("inuse=%v", c.PortInUse), fmt.Sprintf("pollers=%d", c.Pollers), fmt.Sprintf("tls=%v", c.TLS), fmt.Sprintf("portadd=%d", c.PortAdd))
	st.Sample(c)
	if s.Ready() {
		return lab.Failf("ready-before-run", "Ready() is true before Run was called")
	}
	attemptNo := 0
	var attempt func(addr string, valid, inUse bool) *lab.Fail
	attempt = func(addr string, valid, inUse bool) *lab.Fail {
		attemptNo++
		var stop int32
		var sawTrue int32
		var dialFail atomic.Value // string
		var wg sync.WaitGroup
		var probe0 func() string
		// with timeouts configured, an exchange that itself took a good part of the timeout (busy machine) may
		// legitimately have been ended by the server's deadline: such a probe decides nothing
		probe := func() string {
			t0 := time.Now()
			msg := probe0()
			if msg != "" && c.TimeoutMs > 0 && time.Since(t0) > time.Duration(c.TimeoutMs)*time.Millisecond/2 {
				st.Class("slow-probe-under-timeouts(undecided)")
				return ""
			}
			return msg
		}
		probe0 = func() string {
			a := s.VerifListenAddr()
			if a == nil {
				return "Ready() == true but the server has no listener"
			}
			target := a.String()
			if h, p, err := net.SplitHostPort(target); err == nil && (h == "::" || h == "0.0.0.0" || h == "") {
				target = net.JoinHostPort("127.0.0.1", p)
				if h == "::" && strings.HasPrefix(c.Form, "[::]") {
					target = net.JoinHostPort("::1", p)
				}
			}
			var cl *lab.Client
			var err error
			if clientTLS != nil {
				cl, err = lab.DialTLS(target, clientTLS)
			} else {
				cl, err = lab.Dial(target)
			}
			if err != nil {
				return fmt.Sprintf("Ready() == true but dialing %s fails: %v", target, err)
			}
			defer cl.Close()
			_ = cl.Send(simpleReq("bind", 1).Bytes())
			m, err := cl.Next(10 * time.Second)
			if err != nil || m.ID != 1 {
				return fmt.Sprintf("Ready() == true, connected to %s, but the bind was not served: %v", target, err)
			}
			return ""
		}
		for i := 0; i < c.Pollers; i++ {
			wg.Add(1)
			go func() {
				defer wg.Done()
				for atomic.LoadInt32(&stop) == 0 {
					if c.GoMaxProcs <= 2 {
						runtime.Gosched() // a pure spin on 1-2 Ps costs a 10 ms preemption slice per poller and step
					}
					if s.Ready() {
						first := atomic.CompareAndSwapInt32(&sawTrue, 0, 1)
						if first {
							if msg := probe(); msg != "" {
								dialFail.Store(msg)
							}
						}
						return
					}
				}
			}()
		}
		for i := 0; i < c.SpinBefore; i++ {
			runtime.Gosched()
		}
		runErr := make(chan error, 1)
		go func() { runErr <- s.Run(addr, runOpts...) }()
		var rerr error
		returned := false
		// wait until Run has returned or the server reports Ready (hostname forms
		// may take up to 1 s in validateAddrPort's resolver lookup)
		deadline := time.Now().Add(10 * time.Second)
		for !s.Ready() && !returned {
			select {
			case rerr = <-runErr:
				returned = true
			default:
				if time.Now().After(deadline) {
					atomic.StoreInt32(&stop, 1)
					wg.Wait()
					st.Inconclusive(fmt.Sprintf("Run(%q) neither returned nor became ready in 10 s", addr))
					return nil
				}
				time.Sleep(50 * time.Microsecond)
			}
		}
		if !returned {
			// Ready is true: did Run fail at the same moment?
			select {
			case rerr = <-runErr:
				returned = true
			case <-time.After(2 * time.Millisecond):
			}
		}
		if returned {
			// Run returned: with a nil error only after Stop (not called) -> treat nil as harness trouble
			time.Sleep(time.Millisecond)
			atomic.StoreInt32(&stop, 1)
			wg.Wait()
			if rerr == nil {
				return lab.Failf("run-returned-nil", "Run(%q) (attempt %d on this server) returned nil although Stop was never called", addr, attemptNo)
			}
			if atomic.LoadInt32(&sawTrue) == 1 {
				return lab.Failf("ready-true-but-run-failed", "Run(%q) failed (%v) but a poller observed Ready() == true", addr, rerr)
			}
			if s.Ready() {
				return lab.Failf("ready-true-after-run-failed", "Run(%q) failed (%v) and Ready() is true afterwards", addr, rerr)
			}
			if valid && !inUse {
				st.Class("valid-address-rejected:" + c.Form)
				if !strings.Contains(rerr.Error(), "in use") {
					return lab.Failf("valid-address-rejected", "Run(%q) (attempt %d on this server) failed for a valid address: %v", addr, attemptNo, rerr)
				}
			}
			if c.RetryValid && attemptNo <= c.Retries {
				// once more a failing Run on the same server
				return attempt(addr, valid, inUse)
			}
			if c.RetryValid && attemptNo == c.Retries+1 {
				p2, err := lab.FreeLocalPort()
				if err != nil {
					st.Inconclusive(err.Error())
					return nil
				}
				st.Class("retry-with-valid-address")
				return attempt(fmt.Sprintf("127.0.0.1:%d", p2), true, false)
			}
			return nil
		}
		// serving
		defer func() {
			done := make(chan struct{})
			go func() { _ = s.Stop(); close(done) }()
			select {
			case <-done:
			case <-time.After(10 * time.Second):
			}
		}()
		// pollers finish their probe
		wg.Wait()
		atomic.StoreInt32(&stop, 1)
		if v := dialFail.Load(); v != nil {
			return lab.Failf("ready-but-not-listening", "Run(%q): %s", addr, v.(string))
		}
		if msg := probe(); msg != "" {
			return lab.Failf("ready-but-not-listening", "Run(%q) (attempt %d on this server): %s", addr, attemptNo, msg)
		}
		if c.IdleMs > 0 && valid && !inUse {
			st.Class("idle-period-longer-than-the-timeouts")
			time.Sleep(time.Duration(c.IdleMs) * time.Millisecond)
			if !s.Ready() {
				return lab.Failf("ready-lost", "Run(%q): Ready() turned false after %d ms without connections although Stop was not called", addr, c.IdleMs)
			}
			if msg := probe(); msg != "" {
				return lab.Failf("ready-but-not-served-after-idle", "Run(%q), server configured with read/write timeouts of %d ms, first connection after %d ms without connections: %s", addr, c.TimeoutMs, c.IdleMs, msg)
			}
		}
		if !valid || inUse {
			return lab.Failf("invalid-address-accepted", "Run(%q) (valid=%v, port in use=%v) is serving", addr, valid, inUse)
		}
		return nil
	}
	inUse := c.PortInUse
	if c.PortInUse && c.HoldFamily != "" && !c.HeldByGldap {
		// reference: does the standard library manage to listen on this literal address next to the holder?
		if l, err := net.Listen("tcp", addr); err == nil {
			l.Close()
			inUse = false
		}
		st.Class(fmt.Sprintf("holder-on-%s-only:collides=%v", c.HoldFamily, inUse))
	}
	return attempt(addr, c.Valid, inUse)
}

func TestC17(t *testing.T) {
	lab.Prop[c17Case]{
		ID: "C17", Part: "ready",
		Rule: "rapid: listen addresses valid (127.0.0.1, localhost, empty host, [::1], bare ::1, 0.0.0.0, [::]), malformed (23 forms: empty, no port, empty port, unbalanced brackets, bad IPv4/IPv6, text, bracketed literals with junk before or after the brackets), valid forms with an out-of-range port number (port +- 65536...) and valid-but-port-already-bound (held by a plain listener of the harness - on both loopback families, or on one only with a net.Listen reference deciding whether the literal form collides - or by another running gldap server), each with and without WithTLSConfig (held by the harness on both loopback families); 0..8 poller goroutines spin on Ready() from BEFORE Run is called and the first one that sees true dials immediately; GOMAXPROCS 1/2/4/16; after a failing Run the caller may retry on the SAME Server (0..2 more failing Runs, then a valid free address, pollers again); one valid free case in six runs the server with read/write timeouts of 0/600/1500 ms and connects once more after an idle period longer than the timeouts; oracle = Ready false before Run; Ready true => dial succeeds and a bind is served (also after the idle period); Run error => no poller ever saw true and Ready is false afterwards; non-trivial = failing address or pollers spinning before Run; distinct by hash",
		Gen: func(t *rapid.T) c17Case {
			c := c17Case{
				Pollers:    rapid.SampledFrom([]int{0, 1, 2, 4, 8}).Draw(t, "pollers"),
				GoMaxProcs: rapid.SampledFrom([]int{1, 2, 4, 16}).Draw(t, "gomaxprocs"),
				SpinBefore: rapid.SampledFrom([]int{0, 1, 3, 10}).Draw(t, "spin"),
			}
			// malformed forms cost ~1 s each (resolver timeout in validateAddrPort): lower weight
			c.TLS = rapid.IntRange(0, 2).Draw(t, "tls") == 0
			switch rapid.IntRange(0, 8).Draw(t, "class") {
			case 0:
				c.Form = rapid.SampledFrom(c17Malformed).Draw(t, "malformed")
			case 8:
				// a valid form whose port number is out of range: must be rejected, not wrapped
				c.Form = rapid.SampledFrom(c17Valid).Draw(t, "validform")
				c.PortAdd = rapid.SampledFrom([]int{65536, 131072, -65536, 1000000}).Draw(t, "portadd")
			case 1, 2, 3:
				c.Form, c.Valid, c.PortInUse = rapid.SampledFrom(c17Valid).Draw(t, "validform"), true, true
				c.HeldByGldap = rapid.Bool().Draw(t, "heldbygldap")
				if !c.HeldByGldap && rapid.IntRange(0, 1).Draw(t, "onefamily") == 0 {
					// the holder sits on one loopback family only; literal forms only (no resolver in the reference)
					c.HoldFamily = rapid.SampledFrom([]string{"v4", "v4", "v6"}).Draw(t, "holdfamily")
					c.Form = rapid.SampledFrom([]string{"127.0.0.1:%d", ":%d", "[::1]:%d", "0.0.0.0:%d", "[::]:%d"}).Draw(t, "literalform")
				}
			default:
				c.Form, c.Valid = rapid.SampledFrom(c17Valid).Draw(t, "validform"), true
			}
			if c.Valid && !c.PortInUse && rapid.IntRange(0, 5).Draw(t, "idle") == 0 {
				c.TimeoutMs = rapid.SampledFrom([]int{0, 600, 1500}).Draw(t, "timeoutms")
				c.IdleMs = c.TimeoutMs + rapid.SampledFrom([]int{100, 300}).Draw(t, "idlems")
			}
			if (!c.Valid || c.PortInUse) && rapid.IntRange(0, 2).Draw(t, "retry") > 0 {
				c.RetryValid = true
				if !c.Valid && c.PortAdd == 0 {
					c.Retries = 0 // malformed forms cost a resolver timeout each
				} else {
					c.Retries = rapid.IntRange(0, 2).Draw(t, "retries")
				}
			}
			return c
		},
		Exec: c17Exec,
	}.Run(t)
}

// c17OutageExec runs descriptor-shortage scenarios in worker child processes
// (the C07 laboratory) and judges them by C17's statement only: Stop is never
// called, so whenever Ready() is true after the shortage a new connection must
// be accepted and served.
func c17OutageExec(c c07Batch, st *lab.Stats) *lab.Fail {
	cases := make([]interface{}, len(c.Scenarios))
	for i := range c.Scenarios {
		cases[i] = c.Scenarios[i]
	}
	res, err := lab.RunWorkers("c07", cases, 60*time.Second)
	if err != nil {
		st.Inconclusive(err.Error())
		return nil
	}
	var first *lab.Fail
	for i, r := range res {
		s := c.Scenarios[i]
		if r.Skipped != "" {
			st.Inconclusive(fmt.Sprintf("scenario %+v skipped: %s", s, r.Skipped))
			continue
		}
		st.Case(r.Delivered, lab.JSONKey(s), fmt.Sprintf("outages=%d", s.Outages), fmt.Sprintf("outage-ms=%d", s.OutageMs), fmt.Sprintf("delivered=%v", r.Delivered))
		if st.WantSample() {
			st.Sample(s)
		}
		var f *lab.Fail
		switch {
		case r.Died:
			f = lab.Failf("process-died:"+s.Fault, "scenario %+v: the server process died or hung: %s %s", s, r.ExitInfo, tailOf(r.Stderr, 600))
		case !r.OK:
			f = &lab.Fail{Fingerprint: r.FP, Message: r.Msg}
		}
		if f != nil {
			if known := st.Report(f, c07Batch{Scenarios: []c07Scenario{s}}); !known && first == nil {
				first = f
			}
		}
	}
	return first
}

func TestC17Outage(t *testing.T) {
	lab.Prop[c07Batch]{
		ID: "C17", Part: "outage",
		Rule: "rapid: a running server (Ready() == true, Stop never called) goes through 1..12 descriptor shortages of 5..1200 ms (RLIMIT_NOFILE lowered in a worker child process so that accept fails with EMFILE while clients connect), with 0..2 bystander connections exchanging requests; oracle = whenever Ready() is still true afterwards, a new connection is accepted and its bind served; non-trivial = accept really failed (a client-side dial hit the limit too); distinct by scenario",
		Gen: func(t *rapid.T) c07Batch {
			var b c07Batch
			n := rapid.IntRange(2, 6).Draw(t, "n")
			for i := 0; i < n; i++ {
				s := c07Scenario{Fault: "emfile", CheckReady: true, Exchanges: 2,
					Bystanders: rapid.IntRange(0, 2).Draw(t, "bystanders"),
					OutageMs:   rapid.SampledFrom([]int{5, 30, 60, 150, 400, 1200}).Draw(t, "outagems"),
					Outages:    rapid.SampledFrom([]int{1, 1, 2, 4, 12}).Draw(t, "outages"),
				}
				if s.OutageMs >= 400 && s.Outages > 2 {
					s.Outages = 2
				}
				b.Scenarios = append(b.Scenarios, s)
			}
			return b
		},
		Exec: c17OutageExec,
	}.Run(t)
}
