package props

import (
	"bytes"
	"crypto/sha256"
	"errors"
	"fmt"
	"github.com/hashicorp/go-hclog"
	"io"
	"runtime"
	"sort"
	"strings"
	"sync"
	"testing"
	"time"

	"github.com/jimlambrt/gldap"
	"pgregory.net/rapid"

	"verifharness/lab"
	"verifharness/wire"
)

type c05Case struct {
	Transport  string  `json:"transport"` // plain tls starttls
	Writers    [][]int `json:"writers"`   // per writer: payload sizes of its entry frames
	ReadDelay  int     `json:"read_delay_ms"`
	GoMaxProcs int     `json:"gomaxprocs"`
	SlowReader bool    `json:"slow_reader"` // read in small chunks with pauses (back-pressure)
	// Rounds > 1: the same burst is repeated on the same connection; a frame
	// left behind in a buffer at the end of a burst shows up as a missing frame.
	Rounds int `json:"rounds,omitempty"`
	// Debug: the server's logger is at debug level (the response writer dumps every packet it writes)
	Debug bool `json:"debug,omitempty"`
}

func c05Payload(writer, seq, size int) []byte {
	h := sha256.Sum256([]byte(fmt.Sprintf("%d/%d", writer, seq)))
	return bytes.Repeat(h[:], size/32+1)[:size]
}

var c05Sizes = []int{0, 1, 20, 200, 1000, 4050, 4090, 4096, 4100, 5000, 8192, 16384, 40000, 70000}

func genC05(maxWriters int) func(t *rapid.T) c05Case {
	return func(t *rapid.T) c05Case {
		c := c05Case{
			Transport:  rapid.SampledFrom([]string{"plain", "plain", "tls", "starttls"}).Draw(t, "transport"),
			ReadDelay:  rapid.SampledFrom([]int{0, 0, 0, 5, 30}).Draw(t, "readdelay"),
			GoMaxProcs: rapid.SampledFrom([]int{1, 2, 4, 16}).Draw(t, "gomaxprocs"),
			SlowReader: rapid.IntRange(0, 4).Draw(t, "slow") == 0,
			Debug:      rapid.IntRange(0, 5).Draw(t, "debuglog") == 0,
		}
		n := rapid.IntRange(2, maxWriters).Draw(t, "nwriters")
		if rapid.IntRange(0, 9).Draw(t, "many") == 0 {
			n = rapid.IntRange(maxWriters, 300).Draw(t, "nwriters-many")
		}
		if rapid.IntRange(0, 3).Draw(t, "burst") == 0 {
			// burst mode: many writers, one or two tiny frames each, several rounds
			c.Rounds = rapid.IntRange(2, 6).Draw(t, "rounds")
			n = rapid.SampledFrom([]int{16, 64, 64, 128, 256}).Draw(t, "burst-writers")
			for i := 0; i < n; i++ {
				k := rapid.IntRange(0, 2).Draw(t, "burst-frames")
				sizes := make([]int, k)
				for j := range sizes {
					sizes[j] = rapid.SampledFrom([]int{0, 1, 20, 200}).Draw(t, "burst-size")
				}
				c.Writers = append(c.Writers, sizes)
			}
			return c
		}
		budget := 6 << 20 // total bytes per scenario
		for i := 0; i < n; i++ {
			k := rapid.IntRange(1, 20).Draw(t, "nframes")
			if n > 60 {
				k = rapid.IntRange(1, 4).Draw(t, "nframes-few")
			}
			var sizes []int
			for j := 0; j < k; j++ {
				s := rapid.SampledFrom(c05Sizes).Draw(t, "size")
				if s > budget {
					s = 20
				}
				budget -= s
				sizes = append(sizes, s)
			}
			c.Writers = append(c.Writers, sizes)
		}
		return c
	}
}

type c05Written struct {
	MsgID int64
	Seq   int // -1 = the final SearchDone
	Hash  [32]byte
}

func c05Exec(c c05Case, st *lab.Stats) *lab.Fail {
	main, _, err := lab.SharedPKI()
	if err != nil {
		st.Inconclusive(err.Error())
		return nil
	}
	if c.GoMaxProcs > 0 {
		defer runtime.GOMAXPROCS(runtime.GOMAXPROCS(c.GoMaxProcs))
	}
	n := len(c.Writers)
	big := false
	total := 0
	for _, w := range c.Writers {
		for _, s := range w {
			total++
			if s > 4096 {
				big = true
			}
		}
	}
	var mu sync.Mutex
	var written []c05Written
	rounds := c.Rounds
	if rounds < 1 {
		rounds = 1
	}
	const roundStride = 100000
	entered := make([]int, rounds)
	barriers := make([]chan struct{}, rounds)
	for i := range barriers {
		barriers[i] = make(chan struct{})
	}
	h := func(w *gldap.ResponseWriter, r *gldap.Request) {
		_, id, _ := gldap.VerifMessageInfo(r)
		wi := int((id - 1) % roundStride)
		round := int((id - 1) / roundStride)
		if round < 0 || round >= rounds {
			return
		}
		mu.Lock()
		entered[round]++
		if entered[round] == n {
			close(barriers[round])
		}
		mu.Unlock()
		select {
		case <-barriers[round]:
		case <-time.After(5 * time.Second):
		}
		if wi < 0 || wi >= n {
			return
		}
		for seq, size := range c.Writers[wi] {
			p := c05Payload(wi, seq, size)
			e := r.NewSearchResponseEntry(fmt.Sprintf("w%d-%d", wi, seq))
			e.AddAttribute("p", []string{string(p)})
			if err := w.Write(e); err == nil {
				mu.Lock()
				written = append(written, c05Written{MsgID: id, Seq: seq, Hash: sha256.Sum256(p)})
				mu.Unlock()
			}
		}
		if err := w.Write(r.NewSearchDoneResponse(gldap.WithResponseCode(gldap.ResultSuccess))); err == nil {
			mu.Lock()
			written = append(written, c05Written{MsgID: id, Seq: -1})
			mu.Unlock()
		}
	}
	mux, _ := gldap.NewMux()
	_ = mux.Search(h)
	_ = mux.ExtendedOperation(lab.StartTLSHandler(main.ServerTLS()), gldap.ExtendedOperationStartTLS)
	closed := make(chan int, 4)
	opts := lab.ServerOpts{OnClose: func(id int) { closed <- id }}
	if c.Debug {
		opts.LogLevel = hclog.Debug
		st.Class("logger=debug")
	}
	if c.Transport == "tls" {
		opts.TLS = main.ServerTLS()
	}
	srv, err := lab.StartServer(mux, opts)
	if err != nil {
		st.Inconclusive(err.Error())
		return nil
	}
	defer func() { _ = srv.Stop(15 * time.Second) }()
	cl, err := lab.Connect(srv.Addr, c.Transport, main.ClientTLS(false))
	if err != nil {
		return lab.Failf("connect:"+c.Transport, "cannot establish a %s session: %v", c.Transport, err)
	}
	defer cl.Close()
	filter, _ := compileFilter("(objectClass=*)")
	sendRound := func(round int) {
		var buf []byte
		for i := 0; i < n; i++ {
			buf = append(buf, ReqSpec{Req: wire.Req{Kind: "search", MsgID: int64(round*roundStride + i + 1), DN: []byte("dc=x"), Scope: 2, Filter: filter}}.Bytes()...)
		}
		go func() { _ = cl.Send(buf) }()
		if c.ReadDelay > 0 {
			time.Sleep(time.Duration(c.ReadDelay) * time.Millisecond)
		}
	}
	sendRound(0)
	// strict incremental parse of the whole stream
	type rec struct {
		MsgID int64
		Seq   int
		Hash  [32]byte
	}
	var got []rec
	order := []int64{}
	dones := 0
	var ferr error
	sent := 1
	for dones < n*rounds {
		if dones == n*sent && sent < rounds {
			sendRound(sent)
			sent++
		}
		if c.SlowReader && len(got)%17 == 0 {
			time.Sleep(300 * time.Microsecond)
		}
		m, err := cl.Next(20 * time.Second)
		if err != nil {
			ferr = err
			break
		}
		order = append(order, m.ID)
		if m.OpTag == wire.AppSearchDone {
			if _, err := m.Result(); err != nil {
				return lab.Failf("torn-frame", "malformed SearchDone in the stream: %v", err)
			}
			got = append(got, rec{MsgID: m.ID, Seq: -1})
			dones++
			continue
		}
		e, err := m.Entry()
		if err != nil {
			return lab.Failf("torn-frame", "malformed frame in the stream: %v", err)
		}
		var wi, seq int
		if _, err := fmt.Sscanf(string(e.DN), "w%d-%d", &wi, &seq); err != nil || len(e.Attrs) != 1 || len(e.Attrs[0].Vals) != 1 {
			return lab.Failf("torn-frame", "entry %q does not look like anything a writer wrote", truncate(string(e.DN)))
		}
		if int64(wi+1) != (m.ID-1)%roundStride+1 {
			return lab.Failf("merged-frame", "entry of writer %d arrived under message ID %d", wi, m.ID)
		}
		got = append(got, rec{MsgID: m.ID, Seq: seq, Hash: sha256.Sum256(e.Attrs[0].Vals[0])})
	}
	if ferr != nil {
		var fe *lab.FrameError
		if errors.As(ferr, &fe) {
			return lab.Failf("torn-frame", "the byte stream is not a concatenation of whole LDAPMessages: %v", fe)
		}
		if errors.Is(ferr, io.EOF) || errors.Is(ferr, lab.ErrTimeout) {
			mu.Lock()
			nw := len(written)
			mu.Unlock()
			return lab.Failf("lost-frame", "stream ended/stalled (%v) after %d frames and %d of %d SearchDone (%d writers x %d rounds); handlers report %d successful writes", ferr, len(got), dones, n*rounds, n, rounds, nw)
		}
		return lab.Failf("lost-frame", "read error %v after %d frames", ferr, len(got))
	}
	// end the session so that every handler has returned, then compare multisets
	cl.Close()
	select {
	case <-closed:
	case <-time.After(15 * time.Second):
		st.Inconclusive("OnClose not observed")
		return nil
	}
	mu.Lock()
	wr := append([]c05Written{}, written...)
	mu.Unlock()
	key := func(id int64, seq int, h [32]byte) string { return fmt.Sprintf("%d/%d/%x", id, seq, h[:8]) }
	wantSet := map[string]int{}
	for _, w := range wr {
		wantSet[key(w.MsgID, w.Seq, w.Hash)]++
	}
	gotSet := map[string]int{}
	last := map[int64]int{}
	for _, g := range got {
		gotSet[key(g.MsgID, g.Seq, g.Hash)]++
		if g.Seq >= 0 {
			if prev, ok := last[g.MsgID]; ok && g.Seq <= prev {
				return lab.Failf("reordered", "writer with message ID %d: frame %d arrived after frame %d", g.MsgID, g.Seq, prev)
			}
			if done, ok := last[-g.MsgID]; ok && done == 1 {
				return lab.Failf("reordered", "writer with message ID %d: entry %d arrived after its SearchDone", g.MsgID, g.Seq)
			}
			last[g.MsgID] = g.Seq
		} else {
			last[-g.MsgID] = 1
		}
	}
	for k, v := range wantSet {
		if gotSet[k] < v {
			return lab.Failf("lost-frame", "frame %s was written successfully %d times but received %d times", k, v, gotSet[k])
		}
	}
	for k, v := range gotSet {
		if wantSet[k] < v {
			return lab.Failf("duplicated-frame", "frame %s received %d times but written successfully %d times", k, v, wantSet[k])
		}
	}
	// measured interleaving: frames of different writers alternate in the stream
	switches := 0
	for i := 1; i < len(order); i++ {
		if order[i] != order[i-1] {
			switches++
		}
	}
	interleaved := switches > n
	st.Class(fmt.Sprintf("rounds=%d", rounds))
	st.Case(n >= 2 && (big || rounds > 1) && interleaved, lab.JSONKey(c), "transport="+c.Transport, fmt.Sprintf("writers<=%d", bucket(n)),
		fmt.Sprintf("interleaved=%v", interleaved), fmt.Sprintf("bigframe=%v", big), fmt.Sprintf("gomaxprocs=%d", c.GoMaxProcs), fmt.Sprintf("slowreader=%v", c.SlowReader))
	st.AddExtra("frames_checked", int64(len(got)))
	if st.WantSample() {
		st.Sample(map[string]interface{}{"transport": c.Transport, "writers": n, "frames": total, "switches": switches, "gomaxprocs": c.GoMaxProcs, "first_writer_sizes": c.Writers[0]})
	}
	_ = sort.Ints
	return nil
}

func bucket(n int) int {
	for _, b := range []int{2, 4, 8, 16, 32, 64, 128, 300} {
		if n <= b {
			return b
		}
	}
	return n
}

func TestC05(t *testing.T) {
	lab.Prop[c05Case]{
		ID: "C05", Part: "writers",
		Rule: "rapid scenarios: N concurrent writers (2..24, occasionally up to 300) on ONE connection, all released together by a barrier, each writing 1..20 SearchResultEntry frames with payload sizes from {0,1,20,200,1000,4050..4100 (bufio boundary),5000,8192,16384,40000,70000} then a SearchDone; transport plain/TLS/StartTLS; server logger at error or (one case in six) debug level; client reads eagerly, late, or slowly (back-pressure); GOMAXPROCS 1/2/4/16; or 'burst mode': 16..256 writers with 0..2 tiny frames each, the burst repeated 2..6 times on the same connection; oracle = strict incremental parse of the received stream + multiset equality with the writes that returned nil + per-writer order (a frame left behind in a buffer at the end of a burst is a missing frame); non-trivial = >= 2 writers, (>= 1 frame > 4096 B or a multi-round burst) and frames of different writers measurably interleaved in the stream; distinct by hash of the scenario",
		Gen:  genC05(24),
		Exec: c05Exec,
	}.Run(t)
}

// ---- concurrent writers when writes start failing (WithWriteTimeout) --------------

type c05WTCase struct {
	Writers   int `json:"writers"`
	Frames    int `json:"frames"`
	FrameSize int `json:"frame_size"`
	TimeoutMs int `json:"timeout_ms"`
	StallMs   int `json:"stall_ms"` // the client reads nothing for this long
}

// c05WTExec: the server has a write timeout; the client stops reading long
// enough for it to strike while N handlers write. Whatever Write returned nil
// for must arrive whole and exactly once; a write that FAILED may leave a
// partial frame, but only at the very end of the stream - never followed by
// another frame.
func c05WTExec(c c05WTCase, st *lab.Stats) *lab.Fail {
	var mu sync.Mutex
	okWrites := map[string]int{}
	failed := 0
	var wg sync.WaitGroup
	wg.Add(c.Writers)
	h := func(w *gldap.ResponseWriter, r *gldap.Request) {
		defer wg.Done()
		_, id, _ := gldap.VerifMessageInfo(r)
		for seq := 0; seq < c.Frames; seq++ {
			p := c05Payload(int(id), seq, c.FrameSize)
			e := r.NewSearchResponseEntry(fmt.Sprintf("w%d-%d", id, seq))
			e.AddAttribute("p", []string{string(p)})
			err := w.Write(e)
			mu.Lock()
			if err == nil {
				okWrites[fmt.Sprintf("%d/%d", id, seq)]++
			} else {
				failed++
			}
			mu.Unlock()
		}
	}
	mux, _ := gldap.NewMux()
	_ = mux.Search(h)
	srv, err := lab.StartServer(mux, lab.ServerOpts{WriteTimeout: time.Duration(c.TimeoutMs) * time.Millisecond})
	if err != nil {
		st.Inconclusive(err.Error())
		return nil
	}
	defer func() { _ = srv.Stop(15 * time.Second) }()
	cl, err := lab.Dial(srv.Addr)
	if err != nil {
		st.Inconclusive(err.Error())
		return nil
	}
	defer cl.Abort()
	filter, _ := compileFilter("(objectClass=*)")
	var buf []byte
	for i := 0; i < c.Writers; i++ {
		buf = append(buf, ReqSpec{Req: wire.Req{Kind: "search", MsgID: int64(i + 1), DN: []byte("dc=x"), Scope: 2, Filter: filter}}.Bytes()...)
	}
	_ = cl.Send(buf)
	time.Sleep(time.Duration(c.StallMs) * time.Millisecond)
	got := map[string]int{}
	nframes := 0
	tail := ""
	idle := 1500 * time.Millisecond
	if c.TimeoutMs == 0 {
		idle = 5 * time.Second // nothing ends this stream but the writers finishing: a slow machine must not look like a lost frame
	}
	for {
		m, err := cl.Next(idle)
		if err == nil {
			e, perr := m.Entry()
			if perr != nil {
				return lab.Failf("torn-frame", "malformed frame in the stream after %d whole frames (write timeout %d ms, client stalled %d ms): %v", nframes, c.TimeoutMs, c.StallMs, perr)
			}
			var wi, seq int
			if _, serr := fmt.Sscanf(string(e.DN), "w%d-%d", &wi, &seq); serr != nil || int64(wi) != m.ID || len(e.Attrs) != 1 || len(e.Attrs[0].Vals) != 1 ||
				!bytes.Equal(e.Attrs[0].Vals[0], c05Payload(wi, seq, c.FrameSize)) {
				return lab.Failf("torn-frame", "frame %d (message ID %d, DN %q) is not what any writer wrote", nframes, m.ID, truncate(string(e.DN)))
			}
			got[fmt.Sprintf("%d/%d", wi, seq)]++
			nframes++
			continue
		}
		var fe *lab.FrameError
		if errors.As(err, &fe) {
			tail = fe.Error()
		}
		break
	}
	// handlers are done by now (their writes either went through or failed)
	done := make(chan struct{})
	go func() { wg.Wait(); close(done) }()
	select {
	case <-done:
	case <-time.After(10 * time.Second):
		st.Inconclusive("handlers still writing 10 s after the stream went idle")
		return nil
	}
	mu.Lock()
	defer mu.Unlock()
	st.Case((failed > 0 || c.TimeoutMs == 0) && c.Writers >= 2, lab.JSONKey(c), fmt.Sprintf("failed-writes>0=%v", failed > 0), fmt.Sprintf("writers=%d", c.Writers), fmt.Sprintf("write-timeout-configured=%v", c.TimeoutMs > 0))
	if c.TimeoutMs == 0 && failed > 0 {
		return lab.Failf("write-failed-without-timeout", "%d Write calls returned an error although no write timeout is configured and the client, after reading nothing for %d ms, read everything", failed, c.StallMs)
	}
	st.Sample(c)
	if tail != "" && failed == 0 {
		return lab.Failf("torn-frame", "the stream ends inside a frame although every Write returned nil: %s", tail)
	}
	if tail != "" && !strings.Contains(tail, "pending bytes") && !strings.Contains(tail, "ended inside a frame") {
		return lab.Failf("torn-frame", "the byte stream is not a concatenation of whole LDAPMessages (a failed write may leave a partial frame only at the very end): %s", tail)
	}
	for k, v := range okWrites {
		if got[k] != v {
			return lab.Failf("lost-frame", "frame %s: Write returned nil %d time(s) but it was received %d time(s) (%d writes failed after the write timeout)", k, v, got[k], failed)
		}
	}
	for k, v := range got {
		if okWrites[k] < v {
			return lab.Failf("duplicated-frame", "frame %s was received %d time(s) but Write returned nil for it %d time(s)", k, v, okWrites[k])
		}
	}
	return nil
}

func TestC05WriteTimeout(t *testing.T) {
	lab.Prop[c05WTCase]{
		ID: "C05", Part: "write-timeout",
		Rule: "rapid: 2..8 writers x enough frames of 70..400 KB to exceed the socket buffers (>= 16 MB in total) on one connection of a server configured WithWriteTimeout(100..300 ms); the client reads nothing for 2-3x that time, so writes start to fail while others are queued; one case in four has NO write timeout, 3..8 writers and a client that reads nothing for 1.2..3.3 s and then everything (no Write may fail); oracle = every frame for which Write returned nil arrives whole and exactly once, the stream is whole frames possibly followed by ONE partial frame at its very end (and only if some Write failed); non-trivial = >= 2 writers and at least one failed Write; distinct by hash",
		Gen: func(t *rapid.T) c05WTCase {
			c := c05WTCase{
				Writers:   rapid.IntRange(2, 8).Draw(t, "writers"),
				Frames:    rapid.IntRange(3, 12).Draw(t, "frames"),
				FrameSize: rapid.SampledFrom([]int{70000, 200000, 400000}).Draw(t, "framesize"),
				TimeoutMs: rapid.SampledFrom([]int{100, 200, 300}).Draw(t, "timeout"),
			}
			c.StallMs = c.TimeoutMs * rapid.IntRange(2, 3).Draw(t, "stallx")
			if rapid.IntRange(0, 3).Draw(t, "notimeout") == 0 {
				// no write timeout at all: the client just reads nothing for seconds (longer than any plausible
				// internal patience of a writer queue) and then reads everything - nothing may fail, tear or go missing
				c.TimeoutMs = 0
				c.StallMs = rapid.SampledFrom([]int{1200, 2500, 3300}).Draw(t, "longstall")
				c.Writers = rapid.IntRange(3, 8).Draw(t, "writers3")
			}
			// enough data to fill the socket buffers (so that writers really block until the deadline)
			for c.Writers*c.Frames*c.FrameSize < 16<<20 {
				c.Frames++
			}
			return c
		},
		Exec: c05WTExec,
	}.Run(t)
}
