package props

import (
	"fmt"
	"strings"
	"sync"
	"testing"
	"time"

	"github.com/go-ldap/ldap/v3"
	"github.com/jimlambrt/gldap"
	"pgregory.net/rapid"

	"verifharness/lab"
	"verifharness/wire"
)

// RouteSpec is one registered route.
type RouteSpec struct {
	Op     string `json:"op"` // bind modify add delete extended search
	Name   string `json:"name,omitempty"`
	BaseDN string `json:"base_dn,omitempty"`
	Filter string `json:"filter,omitempty"`
	Scope  int    `json:"scope,omitempty"`
}

// RouteReq is one request over the same alphabet.
type RouteReq struct {
	Op     string `json:"op"`
	Name   string `json:"name,omitempty"`
	BaseDN string `json:"base_dn,omitempty"`
	Filter string `json:"filter,omitempty"`
	Scope  int    `json:"scope,omitempty"`
}

var (
	c03ExtNames    = []string{"1.1.1", "1.1.2", "1.3.6.1.4.1.4203.1.11.3"}
	c03RouteBases  = []string{"", "dc=a", "DC=A", "dc=b"}
	c03RouteFilts  = []string{"", "(x=1)", "(X=1)", "(y=2)"}
	c03ReqBases    = []string{"dc=a", "DC=A", "dc=b", "dc=c"}
	c03ReqFilts    = []string{"(x=1)", "(X=1)", "(y=2)", "(z=3)"}
	c03ReqExtNames = []string{"1.1.1", "1.1.2", "1.3.6.1.4.1.4203.1.11.3", "1.1.9", "1.1.10", "1.1", ""}
)

func allRouteKinds() []RouteSpec {
	out := []RouteSpec{{Op: "bind"}, {Op: "modify"}, {Op: "add"}, {Op: "delete"}}
	for _, n := range c03ExtNames {
		out = append(out, RouteSpec{Op: "extended", Name: n})
	}
	for _, b := range c03RouteBases {
		for _, f := range c03RouteFilts {
			for s := 0; s <= 2; s++ {
				out = append(out, RouteSpec{Op: "search", BaseDN: b, Filter: f, Scope: s})
			}
		}
	}
	return out
}

func allRouteReqs() []RouteReq {
	out := []RouteReq{{Op: "bind"}, {Op: "modify"}, {Op: "add"}, {Op: "delete"}}
	for _, n := range c03ReqExtNames {
		out = append(out, RouteReq{Op: "extended", Name: n})
	}
	for _, b := range c03ReqBases {
		for _, f := range c03ReqFilts {
			for s := 0; s <= 2; s++ {
				out = append(out, RouteReq{Op: "search", BaseDN: b, Filter: f, Scope: s})
			}
		}
	}
	return out
}

// modelMatch is the reference predicate written from the property statement.
func modelMatch(r RouteSpec, q RouteReq) bool {
	if r.Op != q.Op {
		return false
	}
	switch r.Op {
	case "extended":
		return r.Name == q.Name
	case "search":
		if r.BaseDN != "" && !strings.EqualFold(r.BaseDN, q.BaseDN) {
			return false
		}
		if r.Filter != "" && !strings.EqualFold(r.Filter, q.Filter) {
			return false
		}
		if r.Scope != 0 && r.Scope != q.Scope {
			return false
		}
	}
	return true
}

func (q RouteReq) spec(msgID int64) ReqSpec {
	r := ReqSpec{}
	r.MsgID = msgID
	r.Kind = q.Op
	switch q.Op {
	case "bind":
		r.Version, r.DN, r.Password = 3, []byte("cn=u"), []byte("pw")
	case "modify":
		r.DN = []byte("cn=u")
		r.Changes = []wire.Change{{Op: 2, Type: []byte("a"), Vals: [][]byte{[]byte("v")}}}
	case "add":
		r.DN = []byte("cn=u")
		r.AddAttrs = []wire.Attr{{Type: []byte("a"), Vals: [][]byte{[]byte("v")}}}
	case "delete":
		r.DN = []byte("cn=u")
	case "extended":
		r.ExtName = []byte(q.Name)
	case "search":
		r.DN = []byte(q.BaseDN)
		r.Scope = int64(q.Scope)
		r.Filter, _ = compileFilter(q.Filter)
		r.FilterStr = q.Filter
	}
	return r
}

var respTagOfOp = map[string]int{"bind": wire.AppBindResponse, "search": wire.AppSearchDone, "modify": wire.AppModifyResponse,
	"add": wire.AppAddResponse, "delete": wire.AppDelResponse, "extended": wire.AppExtendedResponse}

type c03Case struct {
	Routes   []RouteSpec `json:"routes"`
	Defaults int         `json:"defaults"` // 0 absent, 1 present, 2 registered twice
	Reqs     []RouteReq  `json:"reqs"`
	GoLDAP   bool        `json:"goldap"` // also drive the refusal case with the go-ldap client
	// Late: the last Late routes are registered on the live mux only after the requests have been served once
	// (judged against the table as it was then); the requests are then sent again on a second connection and
	// judged against the complete table - "registration order" has no deadline
	Late int `json:"late,omitempty"`
}

func c03Exec(c c03Case, st *lab.Stats) *lab.Fail {
	type ev = c03Ev
	var mu sync.Mutex
	var events []ev
	mk := func(label string) gldap.HandlerFunc {
		return func(w *gldap.ResponseWriter, r *gldap.Request) {
			kind, id, _ := gldap.VerifMessageInfo(r)
			mu.Lock()
			events = append(events, ev{label, id})
			mu.Unlock()
			_ = w.Write(r.NewResponse(gldap.WithApplicationCode(respTagOfOp[kind]), gldap.WithResponseCode(0), gldap.WithDiagnosticMessage(label)))
		}
	}
	mux, _ := gldap.NewMux()
	if c.Late < 0 || c.Late > len(c.Routes) {
		c.Late = 0
	}
	register := func(i int, r RouteSpec) *lab.Fail {
		label := fmt.Sprintf("r%d", i)
		var err error
		switch r.Op {
		case "bind":
			err = mux.Bind(mk(label))
		case "modify":
			err = mux.Modify(mk(label))
		case "add":
			err = mux.Add(mk(label))
		case "delete":
			err = mux.Delete(mk(label))
		case "extended":
			err = mux.ExtendedOperation(mk(label), gldap.ExtendedOperationName(r.Name))
		case "search":
			var opts []gldap.Option
			if r.BaseDN != "" {
				opts = append(opts, gldap.WithBaseDN(r.BaseDN))
			}
			if r.Filter != "" {
				opts = append(opts, gldap.WithFilter(r.Filter))
			}
			if r.Scope != 0 {
				opts = append(opts, gldap.WithScope(gldap.Scope(r.Scope)))
			}
			err = mux.Search(mk(label), opts...)
		}
		if err != nil {
			return lab.Failf("registration-error", "registering route %d (%+v): %v", i, r, err)
		}
		return nil
	}
	for i, r := range c.Routes[:len(c.Routes)-c.Late] {
		if f := register(i, r); f != nil {
			return f
		}
	}
	for d := 1; d <= c.Defaults; d++ {
		if err := mux.DefaultRoute(mk(fmt.Sprintf("d%d", d))); err != nil {
			return lab.Failf("registration-error", "registering default route: %v", err)
		}
	}
	closed := make(chan int, 8)
	srv, err := lab.StartServer(mux, lab.ServerOpts{OnClose: func(id int) { closed <- id }})
	if err != nil {
		st.Inconclusive(err.Error())
		return nil
	}
	defer func() { _ = srv.Stop(10 * time.Second) }()
	if c.Late > 0 {
		st.Class("late-registration")
		if f := c03Batch(c, c.Routes[:len(c.Routes)-c.Late], 1000, srv, closed, &mu, func() []c03Ev { return events }, st, true); f != nil {
			return f
		}
		for i := len(c.Routes) - c.Late; i < len(c.Routes); i++ {
			if f := register(i, c.Routes[i]); f != nil {
				return f
			}
		}
		return c03Batch(c, c.Routes, 2000, srv, closed, &mu, func() []c03Ev { return events }, st, false)
	}
	return c03Batch(c, c.Routes, 1000, srv, closed, &mu, func() []c03Ev { return events }, st, false)
}

type c03Ev struct {
	label string
	msgID int64
}

// c03Batch sends the case's requests on a fresh connection and judges them against the given route table.
func c03Batch(c c03Case, routes []RouteSpec, idBase int64, srv *lab.Server, closed chan int, mu *sync.Mutex, getEvents func() []c03Ev, st *lab.Stats, early bool) *lab.Fail {
	cl, err := lab.Dial(srv.Addr)
	if err != nil {
		st.Inconclusive(err.Error())
		return nil
	}
	defer cl.Abort()
	// expected outcome per request
	want := make([]string, len(c.Reqs)) // route label, "default" or "refuse"
	var buf []byte
	for i, q := range c.Reqs {
		matches := 0
		want[i] = ""
		for j, r := range routes {
			if modelMatch(r, q) {
				if matches == 0 {
					want[i] = fmt.Sprintf("r%d", j)
				}
				matches++
			}
		}
		if matches == 0 {
			if c.Defaults > 0 {
				want[i] = "default"
			} else {
				want[i] = "refuse"
			}
		}
		st.Case(matches >= 2 || matches == 0, lab.JSONKey([]interface{}{routes, c.Defaults, q, early}),
			"op="+q.Op, fmt.Sprintf("matching=%d", min3(matches)), "outcome="+classOfWant(want[i]), fmt.Sprintf("nroutes=%s", routesBucket(len(routes))))
		buf = append(buf, q.spec(idBase+int64(i)).Bytes()...)
	}
	if st.WantSample() {
		st.Sample(c)
	}
	go func() { _ = cl.Send(buf) }()
	type rsp struct {
		tag  uint32
		code int64
		diag string
	}
	got := map[int64][]rsp{}
	for n := 0; n < len(c.Reqs); n++ {
		m, err := cl.Next(10 * time.Second)
		if err != nil {
			return lab.Failf("dropped", "only %d of %d requests were answered (%v): a request was silently dropped", n, len(c.Reqs), err)
		}
		res, err := m.Result()
		if err != nil {
			return lab.Failf("malformed-response", "%v", err)
		}
		got[m.ID] = append(got[m.ID], rsp{m.OpTag, res.Code, string(res.Diag)})
	}
	// closing our side ends the connection; OnClose comes after every handler of
	// the connection returned, so the event log is complete afterwards.
	cl.Abort()
	select {
	case <-closed:
	case <-time.After(10 * time.Second):
		st.Inconclusive("OnClose not seen within 10 s")
		return nil
	}
	mu.Lock()
	var evs []c03Ev
	for _, e := range getEvents() {
		if e.msgID >= idBase && e.msgID < idBase+1000 {
			evs = append(evs, e)
		}
	}
	mu.Unlock()
	for i, q := range c.Reqs {
		id := idBase + int64(i)
		var ran []string
		for _, e := range evs {
			if e.msgID == id {
				ran = append(ran, e.label)
			}
		}
		desc := fmt.Sprintf("request %+v against routes %+v defaults=%d", q, routes, c.Defaults)
		if c.Late > 0 && early {
			desc += fmt.Sprintf(" (%d more routes are registered later: %+v)", c.Late, c.Routes[len(routes):])
		} else if c.Late > 0 {
			desc += fmt.Sprintf(" (the last %d routes were registered on the live mux after the same requests had been served once)", c.Late)
		}
		rs := got[id]
		switch want[i] {
		case "refuse":
			if len(ran) != 0 {
				return lab.Failf("wrong-handler", "%s: handlers %v ran, the model says no route matches and there is no default route", desc, ran)
			}
			if len(rs) != 1 {
				return lab.Failf("refusal-count", "%s: %d responses with the request's message ID, want exactly one refusal", desc, len(rs))
			}
			if rs[0].code != wire.ResultUnwillingToPerform {
				return lab.Failf("refusal-code", "%s: built-in refusal has result code %d, want 53", desc, rs[0].code)
			}
			if int(rs[0].tag) != respTagOfOp[q.Op] {
				return lab.Failf("refusal-optag:"+q.Op, "%s: built-in refusal has protocolOp tag %d, want %d (the response type of a %s request)", desc, rs[0].tag, respTagOfOp[q.Op], q.Op)
			}
		case "default":
			if len(ran) != 1 || !strings.HasPrefix(ran[0], "d") {
				return lab.Failf("wrong-handler", "%s: handlers %v ran, want exactly one default route", desc, ran)
			}
			if len(rs) != 1 || rs[0].diag != ran[0] {
				return lab.Failf("response-count", "%s: responses %v, want exactly one from %s", desc, rs, ran[0])
			}
		default:
			if len(ran) != 1 || ran[0] != want[i] {
				return lab.Failf("wrong-handler", "%s: handlers %v ran, the model says exactly [%s] (first matching route)", desc, ran, want[i])
			}
			if len(rs) != 1 || rs[0].diag != want[i] {
				return lab.Failf("response-count", "%s: responses %v, want exactly one from %s", desc, rs, want[i])
			}
		}
	}
	if len(evs) != countNonRefuse(want) {
		return lab.Failf("extra-dispatch", "%d handler invocations for %d routable requests", len(evs), countNonRefuse(want))
	}
	// second opinion for refusals: the conforming go-ldap client must get a
	// final answer instead of waiting forever
	if c.GoLDAP {
		for i, q := range c.Reqs {
			if want[i] != "refuse" {
				continue
			}
			if f := goldapRefusal(srv.Addr, q, st); f != nil {
				return f
			}
			break
		}
	}
	return nil
}

func min3(n int) int {
	if n > 3 {
		return 3
	}
	return n
}

func classOfWant(w string) string {
	if w == "refuse" || w == "default" {
		return w
	}
	return "route"
}

func countNonRefuse(want []string) int {
	n := 0
	for _, w := range want {
		if w != "refuse" {
			n++
		}
	}
	return n
}

// goldapRefusal performs the request with the go-ldap client; the call must
// return an LDAP error 53 rather than time out.
func goldapRefusal(addr string, q RouteReq, st *lab.Stats) *lab.Fail {
	conn, err := ldap.DialURL("ldap://" + addr)
	if err != nil {
		st.Inconclusive("go-ldap dial: " + err.Error())
		return nil
	}
	defer conn.Close()
	conn.SetTimeout(3 * time.Second)
	var rerr error
	switch q.Op {
	case "bind":
		rerr = conn.Bind("cn=u", "pw")
	case "modify":
		mr := ldap.NewModifyRequest("cn=u", nil)
		mr.Replace("a", []string{"v"})
		rerr = conn.Modify(mr)
	case "add":
		ar := ldap.NewAddRequest("cn=u", nil)
		ar.Attribute("a", []string{"v"})
		rerr = conn.Add(ar)
	case "delete":
		rerr = conn.Del(ldap.NewDelRequest("cn=u", nil))
	case "search":
		_, rerr = conn.Search(ldap.NewSearchRequest(q.BaseDN, q.Scope, 0, 0, 0, false, q.Filter, nil, nil))
	case "extended":
		st.Class("goldap-inexpressible-extended")
		return nil // go-ldap v3.4.6 has no generic extended request API
	}
	st.Class("goldap-refusal-op=" + q.Op)
	if ldap.IsErrorWithCode(rerr, 53) {
		return nil
	}
	return lab.Failf("refusal-goldap:"+q.Op, "go-ldap %s against a mux without matching route: %v (want LDAP result 53 as the final answer)", q.Op, rerr)
}

const c03Rule = "route tables = sequences of routes over {Bind, Modify, Add, Delete, Extended x 3 names, Search x baseDN {none,dc=a,DC=A,dc=b} x filter {none,(x=1),(X=1),(y=2)} x scope {0,1,2}} with default route absent/present/registered twice, crossed with all 59 requests over the same alphabet in a generated order (pipelined on one connection, so that routing is also exercised against its own history) (case variants, all scopes, an unregistered name); oracle = reference model of first-match routing written from the statement, exactly one handler entry and one response per request, built-in refusal = code 53 + request's message ID + response tag of the request's operation (and the go-ldap call returns 53); non-trivial = >= 2 routes match or none; distinct by hash of (table, request)"

func TestC03Random(t *testing.T) {
	kinds := allRouteKinds()
	reqs := allRouteReqs()
	lab.Prop[c03Case]{
		ID: "C03", Part: "random", Rule: "rapid: tables of 0..8 routes, one in five of up to 40 routes; one table in three has its last 1..n routes registered on the live mux after all requests were served once (judged against the shorter table), and the requests are then served again on a second connection and judged against the complete table; " + c03Rule,
		Gen: func(t *rapid.T) c03Case {
			// the order in which the requests hit the mux is generated too: routing must not depend on history
			c := c03Case{Defaults: rapid.IntRange(0, 2).Draw(t, "defaults"), Reqs: rapid.Permutation(reqs).Draw(t, "reqorder")}
			// bias towards search routes that overlap
			// mostly small tables; one in five is large (up to 40 routes: beyond any small-size fast path of the table's data structure)
			maxRoutes := 8
			if rapid.IntRange(0, 4).Draw(t, "large") == 0 {
				maxRoutes = 40
			}
			c.Routes = rapid.SliceOfN(rapid.SampledFrom(kinds), 0, maxRoutes).Draw(t, "routes")
			c.GoLDAP = rapid.IntRange(0, 3).Draw(t, "goldap") == 0
			// one table in three is completed on the live mux: its last 1..n routes are registered after the
			// requests have been served once against the shorter table
			if len(c.Routes) > 0 && rapid.IntRange(0, 2).Draw(t, "late") == 0 {
				c.Late = rapid.IntRange(1, len(c.Routes)).Draw(t, "nlate")
			}
			return c
		},
		Exec: c03Exec,
	}.Run(t)
}

// TestC03Exhaustive enumerates every table with k <= 1 (quick) / k <= 2
// (thorough) routes x 3 default settings x all requests.
func TestC03Exhaustive(t *testing.T) {
	lab.SkipIfReplayOther(t, "exhaustive")
	st := lab.GetStats("C03", "exhaustive")
	defer lab.FlushAll()
	maxK := 1
	if lab.Thorough() {
		maxK = 2
	}
	st.SetRule(fmt.Sprintf("exhaustive: every table of k <= %d routes; ", maxK) + c03Rule)
	if lab.ReplayInto(t, st, "exhaustive", c03Exec) {
		return
	}
	kinds := allRouteKinds()
	reqs := allRouteReqs()
	shard, nsh := lab.Shard()
	var tables [][]RouteSpec
	tables = append(tables, nil)
	for _, a := range kinds {
		tables = append(tables, []RouteSpec{a})
	}
	if maxK >= 2 {
		for _, a := range kinds {
			for _, b := range kinds {
				tables = append(tables, []RouteSpec{a, b})
			}
		}
	}
	k := 0
	for _, tb := range tables {
		for d := 0; d <= 2; d++ {
			k++
			if k%nsh != shard {
				continue
			}
			// a different (deterministic) request order per table: routing must not depend on history
			order := append([]RouteReq{}, reqs...)
			x := uint64(k)*0x9E3779B97F4A7C15 + 1
			for i := len(order) - 1; i > 0; i-- {
				x ^= x << 13
				x ^= x >> 7
				x ^= x << 17
				j := int(x % uint64(i+1))
				order[i], order[j] = order[j], order[i]
			}
			c := c03Case{Routes: tb, Defaults: d, Reqs: order, GoLDAP: k%64 == 0 || len(tb) == 0}
			if f := c03Exec(c, st); f != nil {
				// shrink the request list to the first failing request
				for _, q := range reqs {
					c1 := c
					c1.Reqs = []RouteReq{q}
					if f1 := c03Exec(c1, lab.GetStats("C03", "exhaustive-shrink")); f1 != nil && f1.Fingerprint == f.Fingerprint {
						c, f = c1, f1
						break
					}
				}
				if !st.Report(f, c) {
					t.Fatalf("%s", f.Error())
				}
			}
		}
	}
	st.SetExtra("tables", int64(len(tables)*3))
	st.SetExhaustive(true)
}

func routesBucket(n int) string {
	switch {
	case n <= 8:
		return fmt.Sprint(n)
	case n <= 12:
		return "9-12"
	case n <= 24:
		return "13-24"
	}
	return "25+"
}
