package props

import (
	"fmt"
	"sync"
	"testing"
	"time"

	"github.com/go-ldap/ldap/v3"
	"github.com/jimlambrt/gldap"
	"pgregory.net/rapid"

	"verifharness/lab"
	"verifharness/wire"
)

// ---- request direction -------------------------------------------------------

type c14ReqCase struct {
	Req      ReqSpec  `json:"req"`
	Encoders []string `json:"encoders"` // per control: wire | gldap | goldap
}

// goldapEncode renders the control with go-ldap's own encoder where usable.
func goldapEncode(c CtlSpec) ([]byte, bool) {
	var ctl ldap.Control
	switch c.Kind {
	case "paging":
		p := ldap.NewControlPaging(c.Size)
		p.SetCookie(c.Cookie)
		ctl = p
	case "managedsait":
		ctl = ldap.NewControlManageDsaIT(c.Crit)
	case "generic":
		v := ""
		if c.HasValue {
			v = string(c.Value)
		}
		ctl = ldap.NewControlString(c.OID, c.Crit, v)
	case "ms_notify":
		ctl = ldap.NewControlMicrosoftNotification()
	case "ms_showdel":
		ctl = ldap.NewControlMicrosoftShowDeleted()
	case "ms_ttl":
		ctl = ldap.NewControlMicrosoftServerLinkTTL()
	case "behera_none":
		ctl = ldap.NewControlBeheraPasswordPolicy()
	default:
		return nil, false // go-ldap cannot encode behera values; VChu Encode() returns nil
	}
	var out []byte
	ok := false
	func() {
		defer func() { _ = recover() }()
		p := ctl.Encode()
		if p != nil {
			out = p.Bytes()
			ok = true
		}
	}()
	return out, ok
}

func encodeCtl(c CtlSpec, enc string) ([]byte, string, error) {
	switch enc {
	case "gldap":
		g, err := c.Gldap()
		if err != nil {
			return nil, enc, err
		}
		var out []byte
		site, val, _ := guard(func() { out = g.Encode().Bytes() })
		if val != nil {
			return nil, enc, fmt.Errorf("Encode panicked at %s: %v", site, val)
		}
		return out, enc, nil
	case "goldap":
		if b, ok := goldapEncode(c); ok {
			return b, enc, nil
		}
		return c.Wire().Node().Bytes(), "wire(go-ldap-inexpressible)", nil
	}
	return c.Wire().Node().Bytes(), "wire", nil
}

func c14ReqExec(c c14ReqCase, st *lab.Stats) *lab.Fail {
	q := c.Req
	raw := [][]byte{}
	nontrivial := len(q.Ctls) >= 2
	cls := []string{"op=" + q.Kind, fmt.Sprintf("nctl=%d", len(q.Ctls))}
	for i, cs := range q.Ctls {
		enc := "wire"
		if i < len(c.Encoders) {
			enc = c.Encoders[i]
		}
		b, used, err := encodeCtl(cs, enc)
		if err != nil {
			return lab.Failf("ctl-encode:"+cs.Kind, "control %d (%s) cannot be encoded by %s: %v", i, cs.Kind, enc, err)
		}
		raw = append(raw, b)
		cls = append(cls, "ctl="+cs.Kind, "enc="+used)
		if cs.Crit || cs.Size != 0 || len(cs.Cookie) > 0 || cs.N != 0 || cs.HasValue {
			nontrivial = true
		}
	}
	q.Req.RawControls = raw
	q.Req.Controls = nil
	b := q.Req.Encode()
	st.Case(nontrivial, b, cls...)
	st.Sample(c)
	// twice: with the hook's default logger and with a logger at debug level (the read path dumps every packet
	// then - code that must not disturb what is decoded afterwards)
	for pass, logged := range []bool{false, true} {
		var got []Obs
		var n int
		var derr error
		how := ""
		if logged {
			how = " (connection logger at debug level)"
		}
		site, val, _ := guard(func() {
			visit := func(r *gldap.Request) { got = append(got, observe(r, "")) }
			if logged {
				n, derr = gldap.VerifDecodeStreamLogged(b, c02DebugLogger, visit)
			} else {
				n, derr = gldap.VerifDecodeStream(b, visit)
			}
		})
		_ = pass
		if val != nil {
			return lab.Failf("decode-panic:"+site, "request with valid controls made the decoder panic%s: %v", how, val)
		}
		if n != 1 {
			return lab.Failf("ctl-rejected", "request with valid controls %v was rejected%s: %v", kindsOf(q.Ctls), how, derr)
		}
		if len(got[0].Ctls) != len(q.Ctls) {
			return lab.Failf("ctl-count", "handler sees %d controls, %d were sent (%v)%s", len(got[0].Ctls), len(q.Ctls), kindsOf(q.Ctls), how)
		}
		for i, cs := range q.Ctls {
			spec := cs
			if i < len(c.Encoders) && c.Encoders[i] != "wire" && spec.Kind == "generic" && len(spec.Value) == 0 {
				spec.HasValue = false // gldap / go-ldap encoders omit an empty value
			}
			if err := checkCtl(spec, got[0].Ctls[i]); err != nil {
				return lab.Failf("ctl-roundtrip:"+cs.Kind, "control %d of %v%s: %v", i, kindsOf(q.Ctls), how, err)
			}
		}
	}
	return nil
}

func kindsOf(cs []CtlSpec) []string {
	var out []string
	for _, c := range cs {
		out = append(out, c.Kind)
	}
	return out
}

func TestC14Req(t *testing.T) {
	lab.Prop[c14ReqCase]{
		ID: "C14", Part: "request",
		Rule: "rapid: 0..6 controls of all kinds (page sizes 0..2^32-1, any cookies, grace/expire 0..2^31-1, error 0..8, any int64 VChu expiry - one in three written with 1..12 leading zeros by the independent encoder -, both criticalities, arbitrary OIDs/values, duplicates, any order) attached to Bind/Search/Modify/Add/Delete, each control encoded by one of three encoders (independent RFC-shape encoder, gldap's own Encode, go-ldap's Encode where usable) and decoded by the server's request path - once with a quiet logger and once with the connection's logger at debug level -; oracle = same Go type and fields in the handler's Controls slice, in order; non-trivial = >= 2 controls or a non-default field value; distinct by hash of the bytes",
		Gen: func(t *rapid.T) c14ReqCase {
			kind := rapid.SampledFrom([]string{"bind", "search", "modify", "add", "delete"}).Draw(t, "kind")
			r := genReq(kind, false).Draw(t, "req")
			r.MsgID = genMsgID().Draw(t, "msgid")
			r.Ctls = rapid.SliceOfN(genCtl(), 0, 6).Draw(t, "ctls")
			for i := range r.Ctls {
				// value-less variants of the typed controls (value is OPTIONAL)
				if (r.Ctls[i].Kind == "paging" || r.Ctls[i].Kind == "vchu_warn") && rapid.IntRange(0, 7).Draw(t, "novalue") == 0 {
					r.Ctls[i].NoValue = true
				}
			}
			c := c14ReqCase{Req: r}
			for range r.Ctls {
				c.Encoders = append(c.Encoders, rapid.SampledFrom([]string{"wire", "wire", "gldap", "goldap"}).Draw(t, "enc"))
			}
			for i := range r.Ctls {
				if r.Ctls[i].NoValue {
					c.Encoders[i] = "wire" // constructors cannot express "no value"
				}
			}
			return c
		},
		Exec: c14ReqExec,
	}.Run(t)
}

// ---- response direction ------------------------------------------------------

type c14RespCase struct {
	Ctor  string    `json:"ctor"`
	MsgID int64     `json:"msgid"`
	Code  int       `json:"code"`
	Ctls  []CtlSpec `json:"ctls"`
}

func TestC14Resp(t *testing.T) {
	lab.Prop[c14RespCase]{
		ID: "C14", Part: "response",
		Rule: "rapid: 0..6 controls of all kinds built through the exported constructors / struct literals, set on Bind and SearchDone responses with any result code, written by a real handler; oracle = independent strict parser recovers (OID, criticality, value bytes, inner structure) and go-ldap's DecodeControl recovers the same fields (value-less Behera and OIDs go-ldap gives another meaning are excluded and counted); non-trivial = >= 2 controls or a non-default field value; distinct by hash",
		Gen: func(t *rapid.T) c14RespCase {
			return c14RespCase{
				Ctor:  rapid.SampledFrom([]string{"bind", "searchdone"}).Draw(t, "ctor"),
				MsgID: genMsgID().Draw(t, "msgid"),
				Code:  genResultCode().Draw(t, "code"),
				Ctls:  rapid.SliceOfN(genCtl(), 0, 6).Draw(t, "ctls"),
			}
		},
		Exec: func(c c14RespCase, st *lab.Stats) *lab.Fail {
			kind := "bind"
			if c.Ctor == "searchdone" {
				kind = "search"
			}
			req := ReqSpec{Req: wire.Req{Kind: kind, MsgID: c.MsgID, Version: 3, DN: []byte("cn=x"), Password: []byte("p")}}
			if kind == "search" {
				req.Filter, _ = compileFilter("(objectClass=*)")
			}
			prog := RespProg{Ctor: c.Ctor, Opts: []OptSpec{{Kind: "code", Int: c.Code}}, Setters: []SetterSpec{{Kind: "controls", Ctls: c.Ctls}}}
			// c04Exec counts the case with C04's rule; count with C14's rule here
			sub := lab.GetStats("C14", "response-inner")
			f := c04Exec(c04Case{Items: []c04Item{{Req: req, Progs: []RespProg{prog}}}}, sub)
			nt := len(c.Ctls) >= 2
			cls := []string{"ctor=" + c.Ctor, fmt.Sprintf("nctl=%d", len(c.Ctls))}
			for _, cs := range c.Ctls {
				cls = append(cls, "ctl="+cs.Kind)
				if cs.Crit || cs.Size != 0 || len(cs.Cookie) > 0 || cs.N != 0 || cs.HasValue {
					nt = true
				}
			}
			st.Case(nt, lab.JSONKey(c), cls...)
			st.Sample(c)
			return f
		},
	}.Run(t)
}

// ---- Behera constructor law ----------------------------------------------------

type c14BeheraCase struct {
	Opts []OptSpec `json:"opts"`
}

func TestC14Behera(t *testing.T) {
	lab.Prop[c14BeheraCase]{
		ID: "C14", Part: "behera-ctor",
		Rule: "rapid: every subset, order and repetition (0..4) of WithGraceAuthNsRemaining / WithSecondsBeforeExpiration / WithErrorCode with values 0..2^31-1 (error 0..300); oracle = error, or at most one of grace/expire/error set and error <= 8; an error code above 8 as the effective code must be rejected; a single valid option must be accepted with that value; non-trivial = >= 2 options or error code > 8; distinct by hash",
		Gen: func(t *rapid.T) c14BeheraCase {
			var c c14BeheraCase
			n := rapid.IntRange(0, 4).Draw(t, "n")
			for i := 0; i < n; i++ {
				k := rapid.SampledFrom([]string{"grace", "expire", "errcode"}).Draw(t, "kind")
				o := OptSpec{Kind: k}
				if k == "errcode" {
					o.Int = rapid.OneOf(rapid.IntRange(0, 8), rapid.IntRange(0, 300), rapid.SampledFrom([]int{8, 9, 10, 127, 128, 255, 256})).Draw(t, "err")
				} else {
					o.Int = rapid.OneOf(rapid.IntRange(0, 10), rapid.IntRange(0, 2147483647), rapid.SampledFrom([]int{0, 1, 127, 128, 255, 256, 2147483647})).Draw(t, "val")
				}
				c.Opts = append(c.Opts, o)
			}
			return c
		},
		Exec: func(c c14BeheraCase, st *lab.Stats) *lab.Fail {
			eff := map[string]int{}
			for _, o := range c.Opts {
				eff[o.Kind] = o.Int
			}
			ec, hasErr := eff["errcode"]
			st.Case(len(c.Opts) >= 2 || (hasErr && ec > 8), lab.JSONKey(c), fmt.Sprintf("nopts=%d", len(c.Opts)), fmt.Sprintf("kinds=%d", len(eff)))
			st.Sample(c)
			var opts []gldap.Option
			for _, o := range c.Opts {
				opts = append(opts, o.Option())
			}
			var ctl *gldap.ControlBeheraPasswordPolicy
			var err error
			site, val, _ := guard(func() { ctl, err = gldap.NewControlBeheraPasswordPolicy(opts...) })
			if val != nil {
				return lab.Failf("panic:"+site, "NewControlBeheraPasswordPolicy panicked: %v", val)
			}
			if err != nil {
				if len(eff) <= 1 && !(hasErr && ec > 8) {
					return lab.Failf("behera-ctor-rejects-valid", "constructor rejected a valid single setting %v: %v", eff, err)
				}
				return nil
			}
			if ctl == nil {
				return lab.Failf("behera-ctor-nil", "constructor returned (nil, nil)")
			}
			set := 0
			if ctl.Grace() != -1 {
				set++
			}
			if ctl.Expire() != -1 {
				set++
			}
			code, _ := ctl.ErrorCode()
			if code != -1 {
				set++
			}
			if set > 1 {
				return lab.Failf("behera-ctor-multiple", "constructor accepted %v and yields grace=%d expire=%d error=%d", eff, ctl.Grace(), ctl.Expire(), code)
			}
			if code > 8 || (hasErr && ec > 8) {
				return lab.Failf("behera-ctor-error-range", "constructor accepted error code %d (options %v)", ec, eff)
			}
			if g, ok := eff["grace"]; ok && ctl.Grace() != g {
				return lab.Failf("behera-ctor-value", "grace %d, want %d", ctl.Grace(), g)
			}
			if e, ok := eff["expire"]; ok && ctl.Expire() != e {
				return lab.Failf("behera-ctor-value", "expire %d, want %d", ctl.Expire(), e)
			}
			if hasErr && code != ec {
				return lab.Failf("behera-ctor-value", "error %d, want %d", code, ec)
			}
			return nil
		},
	}.Run(t)
}

// ---- request direction, several connections at the same time ---------------------

type c14ConcCase struct {
	Conns [][]CtlSpec `json:"conns"` // per connection: the controls of its requests (one control list per request = 1..3 controls)
	Reqs  int         `json:"reqs"`
}

// TestC14Concurrent: the same round trip, but 2..8 connections decode their
// (different) controls at the same time - each handler must still see exactly
// what ITS client sent.
func TestC14Concurrent(t *testing.T) {
	lab.Prop[c14ConcCase]{
		ID: "C14", Part: "concurrent",
		Rule: "rapid: 2..8 connections send 5..40 searches each, every request carrying 1..3 controls of that connection's own generated set (paging with distinct sizes/cookies, Behera values, generic values), all connections at once; oracle as part 'request', per connection; non-trivial = >= 2 connections whose controls carry values; distinct by hash",
		Gen: func(t *rapid.T) c14ConcCase {
			var c c14ConcCase
			n := rapid.IntRange(2, 8).Draw(t, "nconns")
			valued := rapid.Custom(func(t *rapid.T) CtlSpec {
				for {
					cs := genCtl().Draw(t, "ctl")
					if cs.Kind == "paging" || cs.Kind == "behera_grace" || cs.Kind == "behera_expire" || cs.Kind == "behera_error" || cs.Kind == "generic" || cs.Kind == "vchu_warn" {
						return cs
					}
				}
			})
			for i := 0; i < n; i++ {
				c.Conns = append(c.Conns, rapid.SliceOfN(valued, 1, 3).Draw(t, "ctls"))
			}
			c.Reqs = rapid.IntRange(5, 40).Draw(t, "reqs")
			return c
		},
		Exec: func(c c14ConcCase, st *lab.Stats) *lab.Fail {
			var mu sync.Mutex
			seen := map[int64][]ObsCtl{}
			mux, _ := gldap.NewMux()
			_ = mux.Search(func(w *gldap.ResponseWriter, r *gldap.Request) {
				o := observe(r, "search")
				mu.Lock()
				seen[o.MsgID] = o.Ctls
				mu.Unlock()
				_ = w.Write(r.NewSearchDoneResponse(gldap.WithResponseCode(0)))
			})
			srv, err := lab.StartServer(mux, lab.ServerOpts{})
			if err != nil {
				st.Inconclusive(err.Error())
				return nil
			}
			defer func() { _ = srv.Stop(15 * time.Second) }()
			filter, _ := compileFilter("(objectClass=*)")
			fails := make([]*lab.Fail, len(c.Conns))
			var wg sync.WaitGroup
			start := make(chan struct{})
			for ci, ctls := range c.Conns {
				wg.Add(1)
				go func(ci int, ctls []CtlSpec) {
					defer wg.Done()
					cl, err := lab.Dial(srv.Addr)
					if err != nil {
						return
					}
					defer cl.Abort()
					<-start
					for k := 0; k < c.Reqs; k++ {
						id := int64(ci)*tagStride + int64(k) + 1
						q := ReqSpec{Req: wire.Req{Kind: "search", MsgID: id, DN: []byte("dc=x"), Scope: 2, Filter: filter}, Ctls: ctls}
						if err := cl.Send(q.Bytes()); err != nil {
							fails[ci] = lab.Failf("ctl-rejected", "connection %d request %d: send: %v", ci, k, err)
							return
						}
						m, err := cl.Next(10 * time.Second)
						if err != nil || m.ID != id {
							fails[ci] = lab.Failf("ctl-rejected", "connection %d: request %d with valid controls %v was not answered (%v) while %d connections were decoding controls at the same time", ci, k, kindsOf(ctls), err, len(c.Conns))
							return
						}
						mu.Lock()
						got := seen[id]
						mu.Unlock()
						if len(got) != len(ctls) {
							fails[ci] = lab.Failf("ctl-count", "connection %d request %d: handler sees %d controls, %d were sent", ci, k, len(got), len(ctls))
							return
						}
						for i := range ctls {
							if err := checkCtl(ctls[i], got[i]); err != nil {
								fails[ci] = lab.Failf("ctl-roundtrip-concurrent:"+ctls[i].Kind, "connection %d request %d control %d: %v (while %d connections were decoding controls at the same time)", ci, k, i, err, len(c.Conns))
								return
							}
						}
					}
				}(ci, ctls)
			}
			close(start)
			wg.Wait()
			st.Case(len(c.Conns) >= 2, lab.JSONKey(c), fmt.Sprintf("conns=%d", len(c.Conns)))
			st.Sample(c)
			for _, f := range fails {
				if f != nil {
					return f
				}
			}
			return nil
		},
	}.Run(t)
}
