package props

import (
	"errors"
	"io"
	"net"
	"os"
	"strings"
	"sync"
	"time"

	"github.com/jimlambrt/gldap"

	"verifharness/lab"
	"verifharness/wire"
)

// event is one stamped observation of a scenario.
type event struct {
	Seq    int64  `json:"seq"`
	Kind   string `json:"kind"` // enter exit onclose eof frame
	Tag    int    `json:"tag"`  // client-side connection tag (-1 unknown)
	ConnID int    `json:"conn_id"`
	MsgID  int64  `json:"msgid"`
	ReqID  int    `json:"req_id"`
	Label  string `json:"label,omitempty"`
}

type evLog struct {
	mu  sync.Mutex
	evs []event
}

func (l *evLog) add(e event) int64 {
	e.Seq = lab.NextSeq()
	l.mu.Lock()
	l.evs = append(l.evs, e)
	l.mu.Unlock()
	return e.Seq
}

func (l *evLog) snapshot() []event {
	l.mu.Lock()
	defer l.mu.Unlock()
	return append([]event{}, l.evs...)
}

const tagStride = 1000000

// msgID encoding: tag*tagStride + n (n < tagStride)
func tagOf(msgID int64) int { return int(msgID / tagStride) }

// gate is a named latch handlers can block on.
type gate struct {
	once sync.Once
	ch   chan struct{}
}

func newGate() *gate  { return &gate{ch: make(chan struct{})} }
func (g *gate) open() { g.once.Do(func() { close(g.ch) }) }
func (g *gate) wait(max time.Duration) bool {
	select {
	case <-g.ch:
		return true
	case <-time.After(max):
		return false
	}
}

// simpleReq builds a small request of the given operation.
func simpleReq(op string, msgID int64) ReqSpec {
	r := c06ReqSpec(c06Req{Op: op, MsgID: msgID})
	if op == "unbind" {
		r = ReqSpec{Req: wire.Req{Kind: "unbind", MsgID: msgID}}
	}
	return r
}

// respondOK writes a minimal final response of the right type.
func respondOK(w *gldap.ResponseWriter, r *gldap.Request) error {
	kind, _, _ := gldap.VerifMessageInfo(r)
	return w.Write(r.NewResponse(gldap.WithApplicationCode(respTagOfOp[kind]), gldap.WithResponseCode(0)))
}

// readUntilClosed reads frames until the peer closes; returns the frames, how
// it ended ("eof", "reset", "timeout", "malformed") and the stamped sequence
// number of the end. idle is an IDLE timeout: "timeout" means that nothing at
// all arrived for that long - a slow but progressing transfer (megabytes
// through TLS in the race build on a busy machine) never times out.
func readUntilClosed(cl *lab.Client, idle time.Duration) (frames []*wire.Message, how string, seq int64) {
	for {
		m, err := cl.Next(idle)
		if err == nil {
			frames = append(frames, m)
			if len(frames) > 4096 {
				frames = frames[len(frames)-1024:] // keep memory bounded; callers look at IDs of small scenarios only
			}
			continue
		}
		seq = lab.NextSeq()
		var fe *lab.FrameError
		switch {
		case errors.Is(err, io.EOF):
			return frames, "eof", seq
		case errors.Is(err, lab.ErrTimeout):
			return frames, "timeout", seq
		case errors.As(err, &fe):
			return frames, "malformed", seq
		default:
			return frames, "reset", seq
		}
	}
}

// drainUntilClosed is readUntilClosed for scenarios that only need to know HOW and WHEN the connection ended:
// the bytes are read into one buffer and dropped, nothing is parsed or kept (megabytes per connection, with the
// collector off, would otherwise pile up as garbage of the harness itself).
func drainUntilClosed(cl *lab.Client, idle time.Duration) (how string, seq int64) {
	buf := make([]byte, 64<<10)
	for {
		_ = cl.C.SetReadDeadline(time.Now().Add(idle))
		_, err := cl.C.Read(buf)
		if err == nil {
			continue
		}
		seq = lab.NextSeq()
		var ne net.Error
		switch {
		case errors.Is(err, io.EOF):
			return "eof", seq
		case errors.As(err, &ne) && ne.Timeout():
			return "timeout", seq
		default:
			return "reset", seq
		}
	}
}

// rst closes a TCP connection abruptly (RST instead of FIN).
func rst(c net.Conn) {
	type linger interface{ SetLinger(int) error }
	if tc, ok := c.(linger); ok {
		_ = tc.SetLinger(0)
	}
	_ = c.Close()
}

// socketFDs counts the socket descriptors of this process.
func socketFDs() int {
	ents, err := os.ReadDir("/proc/self/fd")
	if err != nil {
		return -1
	}
	n := 0
	for _, e := range ents {
		if t, err := os.Readlink("/proc/self/fd/" + e.Name()); err == nil && strings.HasPrefix(t, "socket:") {
			n++
		}
	}
	return n
}

// connGoroutines returns the goroutines that still belong to a gldap connection.
func connGoroutines() []lab.GoroutineInfo {
	var out []lab.GoroutineInfo
	for _, g := range lab.Goroutines() {
		if g.Has("gldap.(*conn)") || g.Has("gldap.(*Server).Run.func") || g.Has("gldap.(*ResponseWriter)") || g.Has("gldap.(*Mux).serve") {
			out = append(out, g)
		}
	}
	return out
}
