package props

import (
	"bytes"
	"fmt"
	"strconv"

	ber "github.com/go-asn1-ber/asn1-ber"
	"github.com/go-ldap/ldap/v3"

	"verifharness/wire"
)

// checkRespCtl compares a control received from the server (strictly parsed
// by the independent codec) with the typed value the handler set.
func checkRespCtl(spec CtlSpec, got wire.Control) error {
	w := spec.Wire()
	if got.OID != w.OID {
		return fmt.Errorf("control %s: OID %q on the wire, want %q", spec.Kind, got.OID, w.OID)
	}
	switch spec.Kind {
	case "paging":
		if !got.HasValue {
			return fmt.Errorf("paging control without value")
		}
		n, used, err := wire.ParseOne(got.Value)
		if err != nil || used != len(got.Value) || !n.Is(wire.Universal, true, wire.TagSequence) || len(n.Children) != 2 {
			return fmt.Errorf("paging value is not SEQUENCE{INTEGER, OCTET STRING}: %x", got.Value)
		}
		if !n.Children[0].Is(wire.Universal, false, wire.TagInteger) || !n.Children[1].Is(wire.Universal, false, wire.TagOctetString) {
			return fmt.Errorf("paging value elements have wrong types: %s", n)
		}
		sz, err := wire.ParseInt(n.Children[0].Data)
		if err != nil || sz != int64(spec.Size) {
			return fmt.Errorf("paging size %d on the wire, want %d", sz, spec.Size)
		}
		if !bytes.Equal(n.Children[1].Data, spec.Cookie) {
			return fmt.Errorf("paging cookie %x on the wire, want %x", n.Children[1].Data, spec.Cookie)
		}
	case "behera_none":
		if got.HasValue && len(got.Value) > 0 {
			// an empty PasswordPolicyResponseValue sequence is also acceptable
			n, _, err := wire.ParseOne(got.Value)
			if err != nil || len(n.Children) != 0 {
				return fmt.Errorf("unset behera control carries a value %x", got.Value)
			}
		}
	case "behera_grace", "behera_expire":
		if !got.HasValue {
			return fmt.Errorf("behera control without value")
		}
		n, used, err := wire.ParseOne(got.Value)
		if err != nil || used != len(got.Value) || !n.Is(wire.Universal, true, wire.TagSequence) || len(n.Children) != 1 {
			return fmt.Errorf("behera value is not a one-element SEQUENCE: %x", got.Value)
		}
		warn := n.Children[0]
		if !warn.Is(wire.Context, true, 0) || len(warn.Children) != 1 {
			return fmt.Errorf("behera warning is not [0]{choice}: %s", n)
		}
		wantTag := uint32(0)
		if spec.Kind == "behera_grace" {
			wantTag = 1
		}
		ch := warn.Children[0]
		if !ch.Is(wire.Context, false, wantTag) {
			return fmt.Errorf("behera warning choice has tag %d, want %d", ch.Tag, wantTag)
		}
		v, err := wire.ParseInt(ch.Data)
		if err != nil || v != spec.N {
			return fmt.Errorf("behera warning value %d, want %d", v, spec.N)
		}
	case "behera_error":
		if !got.HasValue {
			return fmt.Errorf("behera control without value")
		}
		n, used, err := wire.ParseOne(got.Value)
		if err != nil || used != len(got.Value) || !n.Is(wire.Universal, true, wire.TagSequence) || len(n.Children) != 1 {
			return fmt.Errorf("behera value is not a one-element SEQUENCE: %x", got.Value)
		}
		ch := n.Children[0]
		if !ch.Is(wire.Context, false, 1) {
			return fmt.Errorf("behera error element is %s, want [1] primitive", ch)
		}
		v, err := wire.ParseInt(ch.Data)
		if err != nil || v != spec.N {
			return fmt.Errorf("behera error %d, want %d", v, spec.N)
		}
	case "vchu_warn":
		if !got.HasValue || string(got.Value) != strconv.FormatInt(spec.N, 10) {
			return fmt.Errorf("vchu warning value %q, want %q", got.Value, strconv.FormatInt(spec.N, 10))
		}
	case "managedsait":
		if got.Crit != spec.Crit {
			return fmt.Errorf("manageDsaIT criticality %v on the wire, want %v", got.Crit, spec.Crit)
		}
	case "generic":
		if got.Crit != spec.Crit {
			return fmt.Errorf("generic control criticality %v on the wire, want %v", got.Crit, spec.Crit)
		}
		var want []byte
		if spec.HasValue {
			want = spec.Value
		}
		if !bytes.Equal(got.Value, want) {
			return fmt.Errorf("generic control value %x on the wire, want %x", got.Value, want)
		}
	}
	return nil
}

// OIDs to which go-ldap's DecodeControl gives a meaning of its own.
var goldapSpecialOIDs = map[string]bool{
	"1.2.840.113556.1.4.805": true, "1.2.840.113556.1.4.473": true, "1.2.840.113556.1.4.474": true,
	"1.2.840.113556.1.4.841": true, "1.3.6.1.4.1.4203.1.9.1.2": true, "1.3.6.1.4.1.4203.1.9.1.3": true,
	"1.3.6.1.4.1.4203.1.9.1.4": true, "1.3.6.1.4.1.4203.1.9.1.1": true,
}

// goldapCheck lets go-ldap (a second, independent LDAP client implementation)
// decode the control bytes the server produced. skipped=true when go-ldap
// cannot express the case (counted by the caller).
func goldapCheck(spec CtlSpec, raw []byte) (skipped bool, err error) {
	if spec.Kind == "behera_none" || (spec.Kind == "generic" && goldapSpecialOIDs[spec.OID]) {
		return true, nil // go-ldap dereferences nil on a value-less Behera control
	}
	var ctl ldap.Control
	var derr error
	var pan interface{}
	func() {
		defer func() { pan = recover() }()
		p, e := ber.DecodePacketErr(raw)
		if e != nil {
			derr = e
			return
		}
		ctl, derr = ldap.DecodeControl(p)
	}()
	if pan != nil {
		return false, fmt.Errorf("go-ldap DecodeControl panicked on the server's %s control %x: %v", spec.Kind, raw, pan)
	}
	if derr != nil {
		return false, fmt.Errorf("go-ldap cannot decode the server's %s control %x: %v", spec.Kind, raw, derr)
	}
	switch spec.Kind {
	case "paging":
		c, ok := ctl.(*ldap.ControlPaging)
		if !ok {
			return false, fmt.Errorf("go-ldap decoded paging control as %T", ctl)
		}
		if c.PagingSize != spec.Size || !bytes.Equal(c.Cookie, spec.Cookie) {
			return false, fmt.Errorf("go-ldap sees paging size=%d cookie=%x, want %d/%x", c.PagingSize, c.Cookie, spec.Size, spec.Cookie)
		}
	case "behera_grace", "behera_expire", "behera_error":
		c, ok := ctl.(*ldap.ControlBeheraPasswordPolicy)
		if !ok {
			return false, fmt.Errorf("go-ldap decoded behera control as %T", ctl)
		}
		wg, we, wr := int64(-1), int64(-1), int8(-1)
		switch spec.Kind {
		case "behera_grace":
			wg = spec.N
		case "behera_expire":
			we = spec.N
		default:
			wr = int8(spec.N)
		}
		if c.Grace != wg || c.Expire != we || c.Error != wr {
			return false, fmt.Errorf("go-ldap sees behera grace=%d expire=%d error=%d, want %d/%d/%d", c.Grace, c.Expire, c.Error, wg, we, wr)
		}
		if spec.Kind == "behera_error" && c.ErrorString != beheraErrText[int(spec.N)] {
			return false, fmt.Errorf("go-ldap sees behera error string %q", c.ErrorString)
		}
	case "vchu_must":
		if _, ok := ctl.(*ldap.ControlVChuPasswordMustChange); !ok {
			return false, fmt.Errorf("go-ldap decoded vchu must-change control as %T", ctl)
		}
	case "vchu_warn":
		c, ok := ctl.(*ldap.ControlVChuPasswordWarning)
		if !ok || c.Expire != spec.N {
			return false, fmt.Errorf("go-ldap decoded vchu warning as %T %v, want expire %d", ctl, ctl, spec.N)
		}
	case "managedsait":
		c, ok := ctl.(*ldap.ControlManageDsaIT)
		if !ok || c.Criticality != spec.Crit {
			return false, fmt.Errorf("go-ldap decoded manageDsaIT as %T %v, want criticality %v", ctl, ctl, spec.Crit)
		}
	case "ms_notify":
		if _, ok := ctl.(*ldap.ControlMicrosoftNotification); !ok {
			return false, fmt.Errorf("go-ldap decoded ms notification as %T", ctl)
		}
	case "ms_showdel":
		if _, ok := ctl.(*ldap.ControlMicrosoftShowDeleted); !ok {
			return false, fmt.Errorf("go-ldap decoded ms show-deleted as %T", ctl)
		}
	case "ms_ttl":
		if _, ok := ctl.(*ldap.ControlMicrosoftServerLinkTTL); !ok {
			return false, fmt.Errorf("go-ldap decoded ms server-link-ttl as %T", ctl)
		}
	case "generic":
		c, ok := ctl.(*ldap.ControlString)
		if !ok {
			return false, fmt.Errorf("go-ldap decoded generic control %q as %T", spec.OID, ctl)
		}
		want := ""
		if spec.HasValue {
			want = string(spec.Value)
		}
		if c.ControlType != spec.OID || c.Criticality != spec.Crit || c.ControlValue != want {
			return false, fmt.Errorf("go-ldap sees generic control %q crit=%v value=%q, want %q/%v/%q", c.ControlType, c.Criticality, c.ControlValue, spec.OID, spec.Crit, want)
		}
	}
	return false, nil
}

// respCtlProblem checks the controls of a received message against the specs.
func respCtlProblem(want []CtlSpec, m *wire.Message, skippedGoldap *int64) error {
	if len(m.Controls) != len(want) {
		return fmt.Errorf("%d controls on the wire, want %d", len(m.Controls), len(want))
	}
	var ctlNodes []*wire.Node
	if m.HasControls {
		env, _, err := wire.ParseOne(m.Raw)
		if err == nil && len(env.Children) == 3 {
			ctlNodes = env.Children[2].Children
		}
	}
	for i := range want {
		if err := checkRespCtl(want[i], m.Controls[i]); err != nil {
			return fmt.Errorf("control %d: %w", i, err)
		}
		if i < len(ctlNodes) {
			sk, err := goldapCheck(want[i], ctlNodes[i].Bytes())
			if sk && skippedGoldap != nil {
				*skippedGoldap++
			}
			if err != nil {
				return fmt.Errorf("control %d: %w", i, err)
			}
		}
	}
	return nil
}
