package props

import (
	"bytes"
	"crypto/tls"

	"fmt"
	"github.com/hashicorp/go-hclog"
	"sync"
	"testing"
	"time"

	ber "github.com/go-asn1-ber/asn1-ber"
	"github.com/go-ldap/ldap/v3"
	"github.com/jimlambrt/gldap"
	"pgregory.net/rapid"

	"verifharness/lab"
	"verifharness/wire"
)

type c04Item struct {
	Req   ReqSpec    `json:"req"`
	Progs []RespProg `json:"progs"`
}

type c04Case struct {
	Items []c04Item `json:"items"`
	// Transport: plain (""), tls, starttls. End: what follows the requests in the SAME client write:
	// "" nothing (the client closes after reading everything), "unbind" an UnbindRequest, "fin" a half-close.
	Transport string `json:"transport,omitempty"`
	End       string `json:"end,omitempty"`
	// Debug: the server's logger is at debug level (the response writer has debug-only code)
	Debug bool `json:"debug,omitempty"`
}

// expectation computed by the "last value set wins" model
type c04Expect struct {
	Tag        int64 // -1: not checked
	Code       int64 // -1: not checked
	Diag       []byte
	DiagSet    bool
	Matched    []byte
	MatchedSet bool
	Entry      bool
	EntryDN    []byte
	SetAttrs   map[string][][]byte // from WithAttributes (a map: order free)
	ListAttrs  []wire.Attr         // from AddAttribute, in order
	Ctls       []CtlSpec
}

// expectAfter is the expectation for the frame written after the first k phases.
func expectAfter(p RespProg, k int) c04Expect {
	q := p
	q.Setters = append([]SetterSpec{}, p.Setters...)
	for i := 0; i < k && i < len(p.Phases); i++ {
		q.Setters = append(q.Setters, p.Phases[i]...)
	}
	return expectOf(q)
}

func expectOf(p RespProg) c04Expect {
	e := c04Expect{Tag: -1, Code: -1}
	switch p.Ctor {
	case "bind":
		e.Tag = wire.AppBindResponse
	case "searchdone":
		e.Tag = wire.AppSearchDone
	case "entry":
		e.Tag = wire.AppSearchEntry
		e.Entry = true
		e.EntryDN = p.EntryDN
		e.SetAttrs = map[string][][]byte{}
	case "extended":
		e.Tag = wire.AppExtendedResponse
	case "modify":
		e.Tag = wire.AppModifyResponse
	}
	doc := map[string]bool{}
	for _, k := range documentedOpts[p.Ctor] {
		doc[k] = true
	}
	for _, o := range p.Opts {
		if !doc[o.Kind] {
			continue
		}
		switch o.Kind {
		case "code":
			e.Code = int64(o.Int)
		case "appcode":
			e.Tag = int64(o.Int)
		case "diag":
			e.Diag, e.DiagSet = o.Bytes, true
		case "matched":
			e.Matched, e.MatchedSet = o.Bytes, true
		case "attrs":
			e.SetAttrs = map[string][][]byte{}
			if !o.Bool {
				for _, a := range o.Attrs {
					e.SetAttrs[string(a.Type)] = a.Vals
				}
			}
		}
	}
	for _, s := range p.Setters {
		switch s.Kind {
		case "code":
			e.Code = int64(s.Int)
		case "diag":
			e.Diag, e.DiagSet = s.Bytes, true
		case "matched":
			e.Matched, e.MatchedSet = s.Bytes, true
		case "controls":
			if p.Ctor == "bind" || p.Ctor == "searchdone" {
				e.Ctls = s.Ctls
			}
		case "addattr":
			if p.Ctor == "entry" {
				e.ListAttrs = append(e.ListAttrs, s.Attr)
			}
		}
	}
	return e
}

func valsEqual(a, b [][]byte) bool {
	if len(a) != len(b) {
		return false
	}
	for i := range a {
		if !bytes.Equal(a[i], b[i]) {
			return false
		}
	}
	return true
}

// checkFrame compares one received frame with the expectation.
func checkFrame(e c04Expect, m *wire.Message, skippedGoldap *int64) *lab.Fail {
	if e.Tag >= 0 && int64(m.OpTag) != e.Tag {
		return lab.Failf("resp:optag", "protocolOp tag %d, want %d", m.OpTag, e.Tag)
	}
	if e.Entry {
		en, err := m.Entry()
		if err != nil {
			return lab.Failf("resp:entry-malformed", "%v", err)
		}
		if !bytes.Equal(en.DN, e.EntryDN) {
			return lab.Failf("resp:entry-dn", "entry DN %q, want %q", truncate(string(en.DN)), truncate(string(e.EntryDN)))
		}
		k := len(e.SetAttrs)
		if len(en.Attrs) != k+len(e.ListAttrs) {
			return lab.Failf("resp:entry-attr-count", "%d attributes on the wire, want %d", len(en.Attrs), k+len(e.ListAttrs))
		}
		seen := map[string]bool{}
		for _, a := range en.Attrs[:k] {
			want, ok := e.SetAttrs[string(a.Type)]
			if !ok || seen[string(a.Type)] {
				return lab.Failf("resp:entry-attrs", "unexpected or repeated attribute %q among the WithAttributes attributes", a.Type)
			}
			seen[string(a.Type)] = true
			if !valsEqual(a.Vals, want) {
				return lab.Failf("resp:entry-values", "attribute %q values differ from those set", a.Type)
			}
		}
		for i, w := range e.ListAttrs {
			a := en.Attrs[k+i]
			if !bytes.Equal(a.Type, w.Type) {
				return lab.Failf("resp:entry-attr-order", "attribute %d is %q, want %q (order of AddAttribute calls)", k+i, a.Type, w.Type)
			}
			if !valsEqual(a.Vals, w.Vals) {
				return lab.Failf("resp:entry-values", "attribute %q values differ from those added", a.Type)
			}
		}
		if m.HasControls && len(m.Controls) > 0 {
			return lab.Failf("resp:entry-controls", "entry carries %d controls nobody set", len(m.Controls))
		}
		return nil
	}
	res, err := m.Result()
	if err != nil {
		return lab.Failf("resp:result-malformed", "%v", err)
	}
	if e.Code >= 0 && res.Code != e.Code {
		return lab.Failf("resp:code", "result code %d, want %d", res.Code, e.Code)
	}
	if e.DiagSet && !bytes.Equal(res.Diag, e.Diag) {
		return lab.Failf("resp:diag", "diagnostic message %q, want %q (matched DN set: %q)", truncate(string(res.Diag)), truncate(string(e.Diag)), truncate(string(e.Matched)))
	}
	if e.MatchedSet && !bytes.Equal(res.MatchedDN, e.Matched) {
		return lab.Failf("resp:matched", "matched DN %q, want %q (diagnostic set: %q)", truncate(string(res.MatchedDN)), truncate(string(e.Matched)), truncate(string(e.Diag)))
	}
	if err := respCtlProblem(e.Ctls, m, skippedGoldap); err != nil {
		return lab.Failf("resp:controls", "%v", err)
	}
	// second opinion: go-ldap reads the same bytes
	var gerr error
	var pan interface{}
	func() {
		defer func() { pan = recover() }()
		p, e2 := ber.DecodePacketErr(m.Raw)
		if e2 != nil {
			gerr = e2
			pan = "decode"
			return
		}
		gerr = ldap.GetLDAPError(p)
	}()
	if pan != nil {
		return lab.Failf("resp:goldap-cannot-read", "go-ldap cannot read the frame: %v %v", pan, gerr)
	}
	if e.Code >= 0 {
		if e.Code == 0 {
			if gerr != nil {
				return lab.Failf("resp:goldap-code", "go-ldap sees an error for result code 0: %v", gerr)
			}
		} else {
			le, ok := gerr.(*ldap.Error)
			if !ok || int64(le.ResultCode) != e.Code {
				return lab.Failf("resp:goldap-code", "go-ldap sees %v, want result code %d", gerr, e.Code)
			}
			if e.MatchedSet && le.MatchedDN != string(e.Matched) {
				return lab.Failf("resp:goldap-matched", "go-ldap sees matched DN %q, want %q", truncate(le.MatchedDN), truncate(string(e.Matched)))
			}
			if e.DiagSet && le.Err.Error() != string(e.Diag) {
				return lab.Failf("resp:goldap-diag", "go-ldap sees diagnostic %q, want %q", truncate(le.Err.Error()), truncate(string(e.Diag)))
			}
		}
	}
	return nil
}

func c04Exec(c c04Case, st *lab.Stats) *lab.Fail {
	type outcome struct {
		writeErrs []error
		pan       interface{}
		site      string
	}
	outs := make([]outcome, len(c.Items))
	byID := map[int64]int{}
	total := 0
	for i, it := range c.Items {
		byID[it.Req.MsgID] = i
		for _, p := range it.Progs {
			total += 1 + len(p.Phases)
			if len(p.Phases) > 0 {
				st.Class(fmt.Sprintf("rewrites=%d", len(p.Phases)))
			}
			e := expectOf(p)
			nt := it.Req.MsgID != int64(i+1) && ((e.DiagSet && e.MatchedSet && !bytes.Equal(e.Diag, e.Matched)) || len(e.SetAttrs)+len(e.ListAttrs) >= 2 || len(e.Ctls) >= 1)
			cls := []string{"ctor=" + p.Ctor, "req=" + it.Req.Kind, fmt.Sprintf("nsetters=%d", len(p.Setters)), fmt.Sprintf("nctl=%d", len(e.Ctls))}
			for _, cs := range e.Ctls {
				cls = append(cls, "ctl="+cs.Kind)
			}
			st.Case(nt, append(lab.JSONKey(p), byte(it.Req.MsgID), byte(it.Req.MsgID>>8), byte(it.Req.MsgID>>16), byte(it.Req.MsgID>>24)), cls...)
		}
	}
	st.Sample(c)
	var mu sync.Mutex
	var wg sync.WaitGroup
	wg.Add(len(c.Items))
	entered := make([]bool, len(c.Items))
	h := func(w *gldap.ResponseWriter, r *gldap.Request) {
		_, id, _ := gldap.VerifMessageInfo(r)
		mu.Lock()
		idx, ok := byID[id]
		if !ok {
			// message ID mangled by the decoder: fall back to arrival order
			idx = r.ID - 1
		}
		if idx < 0 || idx >= len(c.Items) || entered[idx] {
			mu.Unlock()
			return
		}
		entered[idx] = true
		mu.Unlock()
		defer wg.Done()
		var o outcome
		o.site, o.pan, _ = guard(func() {
			for _, p := range c.Items[idx].Progs {
				resp, apply, err := p.BuildWithApply(r)
				if err != nil {
					o.writeErrs = append(o.writeErrs, err)
					continue
				}
				o.writeErrs = append(o.writeErrs, w.Write(resp))
				// the same response object, modified and written again
				for _, ph := range p.Phases {
					if err := apply(ph); err != nil {
						o.writeErrs = append(o.writeErrs, err)
						continue
					}
					o.writeErrs = append(o.writeErrs, w.Write(resp))
				}
			}
		})
		mu.Lock()
		outs[idx] = o
		mu.Unlock()
	}
	mux, _ := gldap.NewMux()
	_ = mux.DefaultRoute(h)
	transport := c.Transport
	if transport == "" {
		transport = "plain"
	}
	st.Class("transport="+transport, "end="+c.End)
	sopts := lab.ServerOpts{}
	if c.Debug {
		sopts.LogLevel = hclog.Debug
		st.Class("logger=debug")
	}
	var clientTLS *tls.Config
	if transport != "plain" {
		pki, _, err := lab.SharedPKI()
		if err != nil {
			st.Inconclusive(err.Error())
			return nil
		}
		clientTLS = pki.ClientTLS(false)
		if transport == "tls" {
			sopts.TLS = pki.ServerTLS()
		} else {
			_ = mux.ExtendedOperation(lab.StartTLSHandler(pki.ServerTLS()), gldap.ExtendedOperationStartTLS)
		}
	}
	srv, err := lab.StartServer(mux, sopts)
	if err != nil {
		st.Inconclusive(err.Error())
		return nil
	}
	defer func() { _ = srv.Stop(10 * time.Second) }()
	cl, err := lab.Connect(srv.Addr, transport, clientTLS)
	if err != nil {
		if transport == "plain" {
			st.Inconclusive(err.Error())
			return nil
		}
		return lab.Failf("connect:"+transport, "cannot establish a %s session: %v", transport, err)
	}
	defer cl.Abort()
	var buf []byte
	for _, it := range c.Items {
		buf = append(buf, it.Req.Bytes()...)
	}
	if c.End == "unbind" {
		buf = append(buf, ReqSpec{Req: wire.Req{Kind: "unbind", MsgID: 2147483001}}.Bytes()...)
	}
	go func() {
		_ = cl.Send(buf)
		if c.End == "fin" {
			// half-close right behind the requests: the client still reads every response
			type closeWriter interface{ CloseWrite() error }
			if cw, ok := cl.C.(closeWriter); ok {
				_ = cw.CloseWrite()
			}
		}
	}()
	frames := map[int64][]*wire.Message{}
	got := 0
	var skipped int64
	for got < total {
		m, err := cl.Next(15 * time.Second)
		if err != nil {
			if fe, ok := err.(*lab.FrameError); ok {
				return lab.Failf("resp:malformed-frame", "%v", fe)
			}
			mu.Lock()
			defer mu.Unlock()
			for i, o := range outs {
				if o.pan != nil {
					return lab.Failf("resp:handler-panic:"+o.site, "item %d: building/writing a documented response panicked: %v", i, o.pan)
				}
			}
			return lab.Failf("resp:missing", "received %d of %d frames: %v", got, total, err)
		}
		if _, ok := byID[m.ID]; !ok {
			return lab.Failf("resp:msgid", "received a frame with message ID %d which no request carried (sent: %v)", m.ID, keysOf(byID))
		}
		frames[m.ID] = append(frames[m.ID], m)
		got++
	}
	wg.Wait()
	for i, it := range c.Items {
		fr := frames[it.Req.MsgID]
		wantFrames := 0
		for _, p := range it.Progs {
			wantFrames += 1 + len(p.Phases)
		}
		if len(fr) != wantFrames {
			return lab.Failf("resp:msgid", "request %d (msgid=%d) got %d frames, want %d", i, it.Req.MsgID, len(fr), wantFrames)
		}
		for _, we := range outs[i].writeErrs {
			if we != nil {
				return lab.Failf("resp:write-error", "Write returned %v", we)
			}
		}
		fi := 0
		for j, p := range it.Progs {
			for k := 0; k <= len(p.Phases); k++ {
				if f := checkFrame(expectAfter(p, k), fr[fi], &skipped); f != nil {
					f.Message = fmt.Sprintf("request %d (%s msgid=%d) program %d (%s), write #%d of the same response object: %s", i, it.Req.Kind, it.Req.MsgID, j, p.Ctor, k+1, f.Message)
					return f
				}
				fi++
			}
		}
	}
	st.AddExtra("goldap_inexpressible_controls", skipped)
	return nil
}

func keysOf(m map[int64]int) []int64 {
	var out []int64
	for k := range m {
		out = append(out, k)
	}
	return out
}

func TestC04(t *testing.T) {
	lab.Prop[c04Case]{
		ID: "C04", Part: "programs",
		Rule: "rapid: over plain / TLS / StartTLS-upgraded connections, server logger at error or debug level, 1..6 pipelined requests (optionally with an Unbind or a half-close right behind them in the same client write - every response written must still arrive) of every answerable operation with distinct random message IDs (never the arrival number), each answered by 1..5 response programs = constructor x documented options (every subset/order, repetition allowed) x setter sequences, optionally followed by further setters on the SAME response object and another Write (result codes 0..32767, application codes 0..30, strings empty/binary/>127/>65535 bytes, 0..4 attributes x 0..4 values, 0..4 controls of every kind); oracle = last-value-wins model evaluated on frames parsed by the independent strict codec, go-ldap's GetLDAPError/DecodeControl as second reader; non-trivial = message ID != Request.ID and (matched DN != diagnostic both set, or >= 2 attributes, or >= 1 control); distinct by hash of program+message ID",
		Gen: func(t *rapid.T) c04Case {
			var c c04Case
			n := rapid.IntRange(1, 6).Draw(t, "nitems")
			ids := distinctMsgIDs(t, n, 0)
			for i := 0; i < n; i++ {
				r := genReq("", false).Draw(t, "req")
				if r.Kind == "extended" && string(r.ExtName) == wire.OIDStartTLS {
					r.ExtName = []byte("1.3.6.1.4.1.4203.1.11.3")
				}
				r.MsgID = ids[i]
				it := c04Item{Req: r}
				np := rapid.IntRange(1, 5).Draw(t, "nprogs")
				for j := 0; j < np; j++ {
					pr := genRespProg(false, true).Draw(t, "prog")
					if rapid.IntRange(0, 3).Draw(t, "rewrite") == 0 {
						np := rapid.IntRange(1, 2).Draw(t, "nphases")
						for k := 0; k < np; k++ {
							pr.Phases = append(pr.Phases, rapid.SliceOfN(genSetter(pr.Ctor, false), 1, 3).Draw(t, "phase"))
						}
					}
					it.Progs = append(it.Progs, pr)
				}
				c.Items = append(c.Items, it)
			}
			c.Transport = rapid.SampledFrom([]string{"", "", "", "tls", "starttls"}).Draw(t, "transport")
			c.End = rapid.SampledFrom([]string{"", "", "unbind", "fin"}).Draw(t, "end")
			c.Debug = rapid.IntRange(0, 3).Draw(t, "debug") == 0
			return c
		},
		Exec: c04Exec,
	}.Run(t)
}
