package props

import (
	"bytes"
	"encoding/json"
	"fmt"
	"sort"
	"sync"
	"sync/atomic"
	"testing"
	"time"

	"github.com/jimlambrt/gldap"
	"pgregory.net/rapid"

	"verifharness/lab"
	"verifharness/wire"
)

// ---- C16 convert: ConvertString totality and inverse law --------------------

type wrapSpec struct {
	S       []byte `json:"s"`
	General bool   `json:"general,omitempty"` // GeneralString (27) instead of OCTET STRING (4)
	LongLen int    `json:"long_len,omitempty"`
}

type c16ConvertCase struct {
	Inputs  [][]byte   `json:"inputs"`
	Wrapped []wrapSpec `json:"wrapped"`
}

func TestC16Convert(t *testing.T) {
	lab.Prop[c16ConvertCase]{
		ID: "C16", Part: "convert",
		Rule: "rapid: lists of arbitrary strings (edge table: empty, one byte, bare tags, truncated long-form lengths) and lists of strings wrapped by the independent encoder as OCTET STRING / GeneralString with short and long-form lengths (0,1,127,128,255,256,65535,65536 bytes included); non-trivial = contains an input other than the suite's three examples, distinct by hash of the case",
		Gen: func(t *rapid.T) c16ConvertCase {
			var c c16ConvertCase
			hostile := rapid.OneOf(genBytes(), rapid.SampledFrom([][]byte{{}, {4}, {27}, {4, 0x81}, {4, 0x82, 1}, {4, 0x88}, {4, 0x84, 0xff, 0xff, 0xff}, {4, 0xff}, {4, 0x80}, {27, 0x89}, {5, 0}, {0}}))
			c.Inputs = rapid.SliceOfN(hostile, 0, 4).Draw(t, "inputs")
			n := rapid.IntRange(0, 4).Draw(t, "nwrapped")
			for i := 0; i < n; i++ {
				w := wrapSpec{S: genBytesBig().Draw(t, "s"), General: rapid.Bool().Draw(t, "general")}
				if rapid.IntRange(0, 3).Draw(t, "forcelong") == 0 {
					w.LongLen = rapid.IntRange(1, 4).Draw(t, "longlen")
					for l := len(w.S) >> (8 * uint(w.LongLen)); l > 0; l >>= 8 {
						w.LongLen++
					}
					if w.LongLen > 4 {
						w.LongLen = 0
					}
				}
				c.Wrapped = append(c.Wrapped, w)
			}
			return c
		},
		Exec: func(c c16ConvertCase, st *lab.Stats) *lab.Fail {
			st.Case(len(c.Inputs)+len(c.Wrapped) > 0, lab.JSONKey(c), fmt.Sprintf("inputs=%d", len(c.Inputs)), fmt.Sprintf("wrapped=%d", len(c.Wrapped)))
			st.Sample(c)
			for _, in := range c.Inputs {
				site, val, _ := guard(func() { _, _ = gldap.ConvertString(string(in)) })
				if val != nil {
					return lab.Failf("panic:"+site+":"+panicClass(val), "ConvertString(%q) panicked: %v", in, val)
				}
			}
			if len(c.Inputs) > 1 {
				args := []string{}
				for _, in := range c.Inputs {
					args = append(args, string(in))
				}
				site, val, _ := guard(func() { _, _ = gldap.ConvertString(args...) })
				if val != nil {
					return lab.Failf("panic:"+site+":"+panicClass(val), "ConvertString(%q...) panicked: %v", args, val)
				}
			}
			if len(c.Wrapped) > 0 {
				var args, want []string
				for _, w := range c.Wrapped {
					tag := uint32(wire.TagOctetString)
					if w.General {
						tag = wire.TagGeneral
						st.Class("wrap=general")
					} else {
						st.Class("wrap=octet")
					}
					n := wire.Prim(wire.Universal, tag, w.S)
					n.LongLen = w.LongLen
					if w.LongLen > 0 || len(w.S) > 127 {
						st.Class("wrap=longform")
					}
					args = append(args, string(n.Bytes()))
					want = append(want, string(w.S))
				}
				var got []string
				var err error
				site, val, _ := guard(func() { got, err = gldap.ConvertString(args...) })
				if val != nil {
					return lab.Failf("panic:"+site+":"+panicClass(val), "ConvertString(wrapped...) panicked: %v", val)
				}
				if err != nil {
					return lab.Failf("convert-inverse-error", "ConvertString rejected a well-formed wrapped string: %v (case %d strings)", err, len(args))
				}
				if len(got) != len(want) {
					return lab.Failf("convert-inverse", "ConvertString returned %d strings for %d inputs", len(got), len(want))
				}
				for i := range got {
					if got[i] != want[i] {
						return lab.Failf("convert-inverse", "ConvertString(wrap(%q)) = %q", truncate(want[i]), truncate(got[i]))
					}
				}
			}
			return nil
		},
	}.Run(t)
}

func truncate(s string) string {
	if len(s) > 60 {
		return s[:60] + fmt.Sprintf("…(%d bytes)", len(s))
	}
	return s
}

// ---- C16 sid ---------------------------------------------------------------

type c16SidCase struct {
	R     uint8  `json:"r"`
	A     uint16 `json:"a"`
	Bytes []byte `json:"bytes"`
}

func checkSID(r uint8, a uint16) *lab.Fail {
	var b []byte
	var err error
	site, val, _ := guard(func() { b, err = gldap.SIDBytes(r, a) })
	if val != nil {
		return lab.Failf("panic:"+site+":"+panicClass(val), "SIDBytes(%d,%d) panicked: %v", r, a, val)
	}
	if err != nil {
		return lab.Failf("sid-error", "SIDBytes(%d,%d) error: %v", r, a, err)
	}
	var s string
	site, val, _ = guard(func() { s, err = gldap.SIDBytesToString(b) })
	if val != nil {
		return lab.Failf("panic:"+site+":"+panicClass(val), "SIDBytesToString(SIDBytes(%d,%d)) panicked: %v", r, a, val)
	}
	if err != nil {
		return lab.Failf("sid-roundtrip", "SIDBytesToString(SIDBytes(%d,%d)) error: %v", r, a, err)
	}
	if want := fmt.Sprintf("S-%d-%d", r, a); s != want {
		return lab.Failf("sid-roundtrip", "SIDBytesToString(SIDBytes(%d,%d)) = %q, want %q", r, a, s, want)
	}
	return nil
}

func TestC16Sid(t *testing.T) {
	lab.Prop[c16SidCase]{
		ID: "C16", Part: "sid",
		Rule: "rapid: (revision, authority) pairs for the round trip law and arbitrary byte slices (0..80 bytes, sub-authority counts 0..255) for the parser; non-trivial = pair other than the suite's single example or a non-empty byte slice; distinct by hash",
		Gen: func(t *rapid.T) c16SidCase {
			return c16SidCase{
				R: rapid.Uint8().Draw(t, "r"), A: rapid.Uint16().Draw(t, "a"),
				Bytes: rapid.SliceOfN(rapid.Byte(), 0, 80).Draw(t, "bytes"),
			}
		},
		Exec: func(c c16SidCase, st *lab.Stats) *lab.Fail {
			st.Case(true, lab.JSONKey(c), fmt.Sprintf("byteslen=%d", len(c.Bytes)/8*8))
			st.Sample(c)
			if f := checkSID(c.R, c.A); f != nil {
				return f
			}
			site, val, _ := guard(func() { _, _ = gldap.SIDBytesToString(c.Bytes) })
			if val != nil {
				return lab.Failf("panic:"+site+":"+panicClass(val), "SIDBytesToString(%x) panicked: %v", c.Bytes, val)
			}
			return nil
		},
	}.Run(t)
}

// TestC16SidAll enumerates all 2^24 (revision, authority) pairs (sharded).
func TestC16SidAll(t *testing.T) {
	lab.SkipIfReplayOther(t, "sidall")
	st := lab.GetStats("C16", "sidall")
	st.SetRule("exhaustive enumeration of all 2^24 (revision, authority) pairs, sharded by revision; every pair is non-trivial and distinct by construction")
	defer st.Flush()
	shard, n := lab.Shard()
	cnt := int64(0)
	for r := 0; r < 256; r++ {
		if r%n != shard {
			continue
		}
		for a := 0; a < 65536; a++ {
			if f := checkSID(uint8(r), uint16(a)); f != nil {
				st.Report(f, c16SidCase{R: uint8(r), A: uint16(a)})
				t.Fatalf("%s", f.Error())
			}
			cnt++
		}
	}
	st.SetExtra("pairs_enumerated", cnt)
	st.ClassN("pairs", cnt)
	st.SetExhaustive(true)
	// count without hashing 16M keys: every pair is distinct by construction
	st.SetExtra("distinct_by_construction", cnt)
	st.Sample(map[string]interface{}{"enumerated": "revision x authority", "shard": shard, "of": n, "pairs": cnt})
}

// ---- C16 entry -------------------------------------------------------------

type c16EntryCase struct {
	DN    []byte      `json:"dn"`
	Attrs []wire.Attr `json:"attrs"`
	Adds  [][][]byte  `json:"adds"`
}

func TestC16Entry(t *testing.T) {
	lab.Prop[c16EntryCase]{
		ID: "C16", Part: "entry",
		Rule: "rapid: attribute maps (0..8 names incl. empty / binary / prefix-related names, 0..4 values) and AddValue sequences; non-trivial = >= 2 attribute names or >= 1 AddValue call; distinct by hash",
		Gen: func(t *rapid.T) c16EntryCase {
			c := c16EntryCase{DN: genBytes().Draw(t, "dn")}
			n := rapid.IntRange(0, 8).Draw(t, "nattrs")
			names := rapid.OneOf(genName(), rapid.SampledFrom([][]byte{[]byte("a"), []byte("ab"), []byte("b"), []byte("B"), []byte("A"), {}, []byte("aa")}))
			for i := 0; i < n; i++ {
				c.Attrs = append(c.Attrs, wire.Attr{Type: names.Draw(t, "name"), Vals: genVals(t, "vals", false)})
			}
			c.Adds = rapid.SliceOfN(rapid.SliceOfN(genBytes(), 0, 3), 0, 4).Draw(t, "adds")
			return c
		},
		Exec: func(c c16EntryCase, st *lab.Stats) *lab.Fail {
			m := map[string][]string{}
			for _, a := range c.Attrs {
				vals := []string{}
				for _, v := range a.Vals {
					vals = append(vals, string(v))
				}
				m[string(a.Type)] = vals
			}
			st.Case(len(m) >= 2 || len(c.Adds) > 0, lab.JSONKey(c), fmt.Sprintf("names=%d", len(m)), fmt.Sprintf("adds=%d", len(c.Adds)))
			st.Sample(c)
			var es [3]*gldap.Entry
			site, val, _ := guard(func() {
				for i := range es {
					es[i] = gldap.NewEntry(string(c.DN), m)
				}
				_ = gldap.NewEntry(string(c.DN), nil)
			})
			if val != nil {
				return lab.Failf("panic:"+site+":"+panicClass(val), "NewEntry panicked: %v", val)
			}
			keys := []string{}
			for k := range m {
				keys = append(keys, k)
			}
			sort.Strings(keys)
			for i, e := range es {
				if e == nil || e.DN != string(c.DN) {
					return lab.Failf("entry-dn", "NewEntry call %d: DN mismatch", i)
				}
				if len(e.Attributes) != len(keys) {
					return lab.Failf("entry-attr-count", "NewEntry call %d: %d attributes for %d names", i, len(e.Attributes), len(keys))
				}
				for j, a := range e.Attributes {
					if a.Name != keys[j] {
						return lab.Failf("entry-order", "NewEntry call %d: attribute %d is %q, want %q (sorted by name)", i, j, a.Name, keys[j])
					}
					if j > 0 && !(e.Attributes[j-1].Name < a.Name) {
						return lab.Failf("entry-order", "NewEntry: attributes not strictly ascending at %d", j)
					}
					if f := valuesAgree(a); f != nil {
						return f
					}
					want := m[a.Name]
					if len(a.Values) != len(want) {
						return lab.Failf("entry-values", "attribute %q has %d values, want %d", a.Name, len(a.Values), len(want))
					}
					for k := range want {
						if a.Values[k] != want[k] {
							return lab.Failf("entry-values", "attribute %q value %d differs", a.Name, k)
						}
					}
				}
			}
			// the same holds when several goroutines build their own entries at the same time
			if len(m) >= 2 {
				var wgc sync.WaitGroup
				var cfail atomic.Value
				for g := 0; g < 4; g++ {
					wgc.Add(1)
					go func(g int) {
						defer wgc.Done()
						mine := map[string][]string{}
						for k, v := range m {
							mine[fmt.Sprintf("%s#%d", k, g)] = v
						}
						var want []string
						for k := range mine {
							want = append(want, k)
						}
						sort.Strings(want)
						for rep := 0; rep < 40; rep++ {
							site, val, _ := guard(func() {
								e := gldap.NewEntry("cn=x", mine)
								if len(e.Attributes) != len(want) {
									cfail.Store(lab.Failf("entry-order-concurrent", "NewEntry called from 4 goroutines: %d attributes for %d names", len(e.Attributes), len(want)))
									return
								}
								for j, a := range e.Attributes {
									if a.Name != want[j] || len(a.Values) != len(mine[want[j]]) {
										cfail.Store(lab.Failf("entry-order-concurrent", "NewEntry called from 4 goroutines at once: attribute %d is %q with %d values, want %q with %d values", j, a.Name, len(a.Values), want[j], len(mine[want[j]])))
										return
									}
								}
							})
							if val != nil {
								cfail.Store(lab.Failf("panic:"+site+":"+panicClass(val), "NewEntry panicked when called concurrently: %v", val))
								return
							}
						}
					}(g)
				}
				wgc.Wait()
				if v := cfail.Load(); v != nil {
					return v.(*lab.Fail)
				}
			}
			// AddValue sequences keep Values and ByteValues equal element by element
			var fail *lab.Fail
			site, val, _ = guard(func() {
				a := gldap.NewEntryAttribute("x", nil)
				if len(c.Attrs) > 0 {
					vals := []string{}
					for _, v := range c.Attrs[0].Vals {
						vals = append(vals, string(v))
					}
					a = gldap.NewEntryAttribute(string(c.Attrs[0].Type), vals)
				}
				want := append([]string{}, a.Values...)
				for _, add := range c.Adds {
					ss := []string{}
					for _, v := range add {
						ss = append(ss, string(v))
					}
					a.AddValue(ss...)
					want = append(want, ss...)
					if f := valuesAgree(a); f != nil {
						fail = f
						return
					}
				}
				if len(a.Values) != len(want) {
					fail = lab.Failf("addvalue", "after AddValue sequence: %d values, want %d", len(a.Values), len(want))
					return
				}
				for i := range want {
					if a.Values[i] != want[i] {
						fail = lab.Failf("addvalue", "after AddValue sequence: value %d differs", i)
						return
					}
				}
			})
			if val != nil {
				return lab.Failf("panic:"+site+":"+panicClass(val), "EntryAttribute.AddValue panicked: %v", val)
			}
			return fail
		},
	}.Run(t)
}

func valuesAgree(a *gldap.EntryAttribute) *lab.Fail {
	if len(a.Values) != len(a.ByteValues) {
		return lab.Failf("values-bytevalues", "attribute %q: %d string values but %d byte values", a.Name, len(a.Values), len(a.ByteValues))
	}
	for i := range a.Values {
		if !bytes.Equal([]byte(a.Values[i]), a.ByteValues[i]) {
			return lab.Failf("values-bytevalues", "attribute %q: value %d differs between Values and ByteValues", a.Name, i)
		}
	}
	return nil
}

// ---- C16 ctor: New*Response with any options, inside real handlers ----------

type c16CtorItem struct {
	Req  ReqSpec  `json:"req"`
	Prog RespProg `json:"prog"`
}

type c16CtorCase struct {
	Items []c16CtorItem `json:"items"`
}

// runPrograms starts a server whose every route executes the program assigned
// to the request's position, sends the requests pipelined on one connection
// and waits for all handlers. It returns per item: panic (site,value) and the
// Write error.
type progOutcome struct {
	Entered  bool
	PanicVal interface{}
	Site     string
	WriteErr error
	BuildErr error
}

func runPrograms(items []c16CtorItem, write bool) ([]progOutcome, *lab.Client, *lab.Server, error) {
	out := make([]progOutcome, len(items))
	var mu sync.Mutex
	var wg sync.WaitGroup
	wg.Add(len(items))
	h := func(w *gldap.ResponseWriter, r *gldap.Request) {
		idx := r.ID - 1
		if idx < 0 || idx >= len(items) {
			return
		}
		mu.Lock()
		already := out[idx].Entered
		out[idx].Entered = true
		mu.Unlock()
		if already {
			return
		}
		defer wg.Done()
		var werr, berr error
		site, val, _ := guard(func() {
			resp, err := items[idx].Prog.Build(r)
			if err != nil {
				berr = err
				return
			}
			if write {
				werr = w.Write(resp)
			}
		})
		mu.Lock()
		out[idx].PanicVal, out[idx].Site, out[idx].WriteErr, out[idx].BuildErr = val, site, werr, berr
		mu.Unlock()
	}
	mux, _ := gldap.NewMux()
	_ = mux.DefaultRoute(h)
	closed := make(chan struct{}, 4)
	srv, err := lab.StartServer(mux, lab.ServerOpts{OnClose: func(int) { closed <- struct{}{} }})
	if err != nil {
		return nil, nil, nil, err
	}
	cl, err := lab.Dial(srv.Addr)
	if err != nil {
		_ = srv.Stop(5 * time.Second)
		return nil, nil, nil, fmt.Errorf("%w: dial: %v", lab.ErrHarness, err)
	}
	var buf []byte
	for _, it := range items {
		buf = append(buf, it.Req.Bytes()...)
	}
	go func() { _ = cl.Send(buf) }()
	done := make(chan struct{})
	go func() { wg.Wait(); close(done) }()
	select {
	case <-done:
	case <-closed:
		// the server ended the connection (after waiting for its handlers):
		// nothing more will be dispatched
	case <-time.After(20 * time.Second):
	}
	mu.Lock()
	defer mu.Unlock()
	return append([]progOutcome{}, out...), cl, srv, nil
}

func TestC16Ctor(t *testing.T) {
	lab.Prop[c16CtorCase]{
		ID: "C16", Part: "ctor",
		Rule: "rapid: 1..8 pipelined real requests (all six answerable operations) whose handler builds a response with a random constructor, 0..n options drawn with repetition from ALL exported options (foreign families and nil included, so every subset and order is reachable), then setters, then Write; non-trivial = program whose option list is not exactly {WithResponseCode} (the only shape the suite runs); distinct by hash of the program",
		Gen: func(t *rapid.T) c16CtorCase {
			var c c16CtorCase
			n := rapid.IntRange(1, 8).Draw(t, "nitems")
			ids := distinctMsgIDs(t, n, 0)
			for i := 0; i < n; i++ {
				r := genReq("", false).Draw(t, "req")
				// StartTLS is served inline, fine; keep it.
				r.MsgID = ids[i]
				c.Items = append(c.Items, c16CtorItem{Req: r, Prog: genRespProg(true, false).Draw(t, "prog")})
			}
			return c
		},
		Exec: func(c c16CtorCase, st *lab.Stats) *lab.Fail {
			for _, it := range c.Items {
				nt := !(len(it.Prog.Opts) == 1 && it.Prog.Opts[0].Kind == "code")
				st.Case(nt, lab.JSONKey(it.Prog), "ctor="+it.Prog.Ctor, "req="+it.Req.Kind, fmt.Sprintf("nopts=%d", len(it.Prog.Opts)))
				for _, o := range it.Prog.Opts {
					st.Class("opt=" + o.Kind)
				}
			}
			st.Sample(c)
			out, cl, srv, err := runPrograms(c.Items, true)
			if err != nil {
				st.Inconclusive(err.Error())
				return nil
			}
			defer func() {
				cl.Abort()
				if err := srv.Stop(10 * time.Second); err != nil {
					st.Class("stop-problem")
				}
			}()
			for i, o := range out {
				if o.PanicVal != nil {
					return lab.Failf("panic:"+o.Site+":"+panicClass(o.PanicVal), "item %d: constructor %s with options %v panicked: %v", i, c.Items[i].Prog.Ctor, optKinds(c.Items[i].Prog.Opts), o.PanicVal)
				}
			}
			for i, o := range out {
				if !o.Entered {
					if _, ok := srv.PanicLogged(); ok {
						return lab.Failf("decode-panic-logged", "item %d never reached its handler and the server logged a panic", i)
					}
					st.Class("handler-not-entered")
				}
			}
			return nil
		},
	}.Run(t)
}

func optKinds(os []OptSpec) []string {
	var out []string
	for _, o := range os {
		out = append(out, o.Kind)
	}
	return out
}

// ---- C16 control constructors and mux registration --------------------------

type c16MiscCase struct {
	Opts     []OptSpec `json:"opts"`
	OID      []byte    `json:"oid"`
	PageSize uint32    `json:"page_size"`
	NilFn    bool      `json:"nil_fn"`
	ZeroMux  bool      `json:"zero_mux"`
	ExtName  []byte    `json:"ext_name"`
}

func TestC16Misc(t *testing.T) {
	allKinds := append(append([]string{}, respOptKinds...), foreignOptKinds...)
	lab.Prop[c16MiscCase]{
		ID: "C16", Part: "misc",
		Rule: "rapid: NewControl* constructors and every Mux registration method called with 0..5 options from ALL exported options (nil included), nil / non-nil handler, zero-value and constructed Mux; Encode/String of what they return; non-trivial = >= 1 option or nil handler or zero-value mux; distinct by hash",
		Gen: func(t *rapid.T) c16MiscCase {
			return c16MiscCase{
				Opts:     rapid.SliceOfN(genOpt(allKinds, false), 0, 5).Draw(t, "opts"),
				OID:      rapid.OneOf(genBytes(), rapid.Just([]byte{})).Draw(t, "oid"),
				PageSize: rapid.Uint32().Draw(t, "pagesize"),
				NilFn:    rapid.Bool().Draw(t, "nilfn"),
				ZeroMux:  rapid.Bool().Draw(t, "zeromux"),
				ExtName:  genBytes().Draw(t, "extname"),
			}
		},
		Exec: func(c c16MiscCase, st *lab.Stats) *lab.Fail {
			st.Case(len(c.Opts) > 0 || c.NilFn || c.ZeroMux, lab.JSONKey(c), fmt.Sprintf("nopts=%d", len(c.Opts)), fmt.Sprintf("nilfn=%v", c.NilFn), fmt.Sprintf("zeromux=%v", c.ZeroMux))
			st.Sample(c)
			var opts []gldap.Option
			for _, o := range c.Opts {
				opts = append(opts, o.Option())
			}
			use := func(name string, ctl gldap.Control, err error) *lab.Fail {
				if err != nil {
					return nil
				}
				if ctl == nil {
					return lab.Failf("ctor-nil-nil:"+name, "%s returned (nil, nil)", name)
				}
				site, val, _ := guard(func() { _ = ctl.GetControlType(); _ = ctl.String(); _ = ctl.Encode().Bytes() })
				if val != nil {
					return lab.Failf("panic:"+site+":"+panicClass(val), "%s result: Encode/String panicked: %v", name, val)
				}
				return nil
			}
			var fail *lab.Fail
			site, val, _ := guard(func() {
				steps := []func() *lab.Fail{
					func() *lab.Fail {
						x, err := gldap.NewControlString(string(c.OID), opts...)
						if x == nil {
							return use("NewControlString", nil, orErr(err))
						}
						return use("NewControlString", x, err)
					},
					func() *lab.Fail {
						x, err := gldap.NewControlManageDsaIT(opts...)
						if x == nil {
							return use("NewControlManageDsaIT", nil, orErr(err))
						}
						return use("NewControlManageDsaIT", x, err)
					},
					func() *lab.Fail {
						x, err := gldap.NewControlMicrosoftNotification(opts...)
						if x == nil {
							return use("NewControlMicrosoftNotification", nil, orErr(err))
						}
						return use("NewControlMicrosoftNotification", x, err)
					},
					func() *lab.Fail {
						x, err := gldap.NewControlMicrosoftServerLinkTTL(opts...)
						if x == nil {
							return use("NewControlMicrosoftServerLinkTTL", nil, orErr(err))
						}
						return use("NewControlMicrosoftServerLinkTTL", x, err)
					},
					func() *lab.Fail {
						x, err := gldap.NewControlMicrosoftShowDeleted(opts...)
						if x == nil {
							return use("NewControlMicrosoftShowDeleted", nil, orErr(err))
						}
						return use("NewControlMicrosoftShowDeleted", x, err)
					},
					func() *lab.Fail {
						x, err := gldap.NewControlBeheraPasswordPolicy(opts...)
						if x == nil {
							return use("NewControlBeheraPasswordPolicy", nil, orErr(err))
						}
						_ = x.Grace()
						_ = x.Expire()
						_, _ = x.ErrorCode()
						return use("NewControlBeheraPasswordPolicy", x, err)
					},
					func() *lab.Fail {
						x, err := gldap.NewControlPaging(c.PageSize, opts...)
						if x == nil {
							return use("NewControlPaging", nil, orErr(err))
						}
						x.SetCookie(c.OID)
						return use("NewControlPaging", x, err)
					},
				}
				for _, s := range steps {
					if f := s(); f != nil {
						fail = f
						return
					}
				}
				// mux registration
				var m *gldap.Mux
				if c.ZeroMux {
					m = &gldap.Mux{}
				} else {
					m, _ = gldap.NewMux(opts...)
				}
				var fn gldap.HandlerFunc
				if !c.NilFn {
					fn = func(*gldap.ResponseWriter, *gldap.Request) {}
				}
				errs := []error{
					m.Bind(fn, opts...), m.Unbind(fn, opts...), m.Search(fn, opts...),
					m.ExtendedOperation(fn, gldap.ExtendedOperationName(c.ExtName), opts...),
					m.Modify(fn, opts...), m.Add(fn, opts...), m.Delete(fn, opts...), m.DefaultRoute(fn, opts...),
				}
				for i, e := range errs {
					if c.NilFn && e == nil {
						fail = lab.Failf("mux-nil-handler-accepted", "registration method %d accepted a nil handler", i)
						return
					}
					if !c.NilFn && e != nil {
						fail = lab.Failf("mux-registration-error", "registration method %d rejected a valid handler: %v", i, e)
						return
					}
				}
				s, err := gldap.NewServer(opts...)
				if err == nil && s != nil {
					_ = s.Router(m)
					_ = s.Router(nil)
					_ = s.Ready()
				}
			})
			if val != nil {
				return lab.Failf("panic:"+site+":"+panicClass(val), "constructor / registration panicked with options %v: %v", optKinds(c.Opts), val)
			}
			return fail
		},
	}.Run(t)
}

func orErr(err error) error {
	if err == nil {
		return nil
	}
	return err
}

// ---- C16 constructors used by many goroutines at once (worker child) -----------

// c16ConcScenario: G goroutines call the control constructors (and what they
// return) at the same time, the way concurrently dispatched handlers do. A Go
// "fatal error" (e.g. concurrent map read and map write) cannot be recovered;
// it kills the process, so the scenario runs in a worker child and the parent
// attributes the death.
type c16ConcScenario struct {
	Goroutines int    `json:"goroutines"`
	Iters      int    `json:"iters"`
	OIDBase    string `json:"oid_base"` // every call uses a control type never seen before: base.g.i
	Known      bool   `json:"known"`    // also mix in the well-known control types
}

func c16ConcRun(index int, raw json.RawMessage) lab.WorkerResult {
	var s c16ConcScenario
	if err := json.Unmarshal(raw, &s); err != nil {
		return lab.WorkerResult{Skipped: "bad scenario"}
	}
	var wg sync.WaitGroup
	var first atomic.Value
	start := make(chan struct{})
	for g := 0; g < s.Goroutines; g++ {
		wg.Add(1)
		go func(g int) {
			defer wg.Done()
			<-start
			for i := 0; i < s.Iters; i++ {
				oid := fmt.Sprintf("%s.%d.%d", s.OIDBase, g, i)
				site, val, _ := guard(func() {
					c, err := gldap.NewControlString(oid, gldap.WithCriticality(i%2 == 0), gldap.WithControlValue("v"))
					if err == nil && c != nil {
						_ = c.GetControlType()
						_ = c.String()
						_ = c.Encode().Bytes()
					}
					if s.Known {
						if p, err := gldap.NewControlPaging(uint32(i)); err == nil {
							_ = p.String()
							_ = p.Encode().Bytes()
						}
						if m, err := gldap.NewControlManageDsaIT(); err == nil {
							_ = m.String()
						}
						if bp, err := gldap.NewControlBeheraPasswordPolicy(gldap.WithGraceAuthNsRemaining(uint(i))); err == nil {
							_ = bp.String()
							_ = bp.Encode().Bytes()
						}
					}
				})
				if val != nil && first.Load() == nil {
					first.Store(fmt.Sprintf("%s: %v", site, val))
				}
			}
		}(g)
	}
	close(start)
	wg.Wait()
	if v := first.Load(); v != nil {
		return lab.WorkerResult{OK: false, FP: "panic:concurrent-control-constructors", Msg: fmt.Sprintf("control constructors called from %d goroutines at once panicked: %s", s.Goroutines, v.(string)), Delivered: true}
	}
	return lab.WorkerResult{OK: true, Delivered: s.Goroutines >= 2}
}

type c16ConcBatch struct {
	Scenarios []c16ConcScenario `json:"scenarios"`
}

func TestC16CtlConcurrent(t *testing.T) {
	lab.Prop[c16ConcBatch]{
		ID: "C16", Part: "ctlconc",
		Rule: "rapid: batches of 2..5 scenarios run in a worker child process: 2..16 goroutines call NewControlString with control types never seen before in the process (plus, optionally, the typed control constructors), String and Encode of the results, 50..400 times each, all released together; oracle = no panic and the child process survives (a Go fatal error such as 'concurrent map read and map write' cannot be recovered); non-trivial = >= 2 goroutines; distinct by scenario",
		Gen: func(t *rapid.T) c16ConcBatch {
			var b c16ConcBatch
			n := rapid.IntRange(2, 5).Draw(t, "n")
			for i := 0; i < n; i++ {
				b.Scenarios = append(b.Scenarios, c16ConcScenario{
					Goroutines: rapid.SampledFrom([]int{2, 4, 8, 16}).Draw(t, "goroutines"),
					Iters:      rapid.SampledFrom([]int{50, 100, 400}).Draw(t, "iters"),
					OIDBase:    rapid.StringMatching(`[12]\.[0-9]{1,3}\.[0-9]{1,5}`).Draw(t, "oidbase"),
					Known:      rapid.Bool().Draw(t, "known"),
				})
			}
			return b
		},
		Exec: func(c c16ConcBatch, st *lab.Stats) *lab.Fail {
			cases := make([]interface{}, len(c.Scenarios))
			for i := range c.Scenarios {
				cases[i] = c.Scenarios[i]
			}
			res, err := lab.RunWorkers("c16", cases, 60*time.Second)
			if err != nil {
				st.Inconclusive(err.Error())
				return nil
			}
			var first *lab.Fail
			for i, r := range res {
				s := c.Scenarios[i]
				if r.Skipped != "" {
					st.Inconclusive(fmt.Sprintf("scenario %+v skipped: %s", s, r.Skipped))
					continue
				}
				st.Case(s.Goroutines >= 2, lab.JSONKey(s), fmt.Sprintf("goroutines=%d", s.Goroutines), fmt.Sprintf("known=%v", s.Known))
				if st.WantSample() {
					st.Sample(s)
				}
				var f *lab.Fail
				switch {
				case r.Died:
					f = lab.Failf("process-died:concurrent-control-constructors", "scenario %+v: the process DIED while %d goroutines were calling the control constructors: %s %s", s, s.Goroutines, r.ExitInfo, tailOf(r.Stderr, 700))
				case !r.OK:
					f = &lab.Fail{Fingerprint: r.FP, Message: r.Msg}
				}
				if f != nil {
					if known := st.Report(f, c16ConcBatch{Scenarios: []c16ConcScenario{s}}); !known && first == nil {
						first = f
					}
				}
			}
			return first
		},
	}.Run(t)
}
