package props

import (
	"crypto/tls"
	"net"
	"testing"
	"time"

	"github.com/jimlambrt/gldap"
	"pgregory.net/rapid"

	"verifharness/lab"
	"verifharness/wire"
)

// StartTLS pipelined behind handlers that are still running: the upgrade replaces the connection's reader, writer
// and net.Conn while earlier handlers of the same connection may be about to write. Whatever those late responses
// look like to the client (a client that sends StartTLS with operations outstanding has left RFC 4511 4.14.1),
// gldap's own accesses must be ordered - the part is judged by the race detector only.

type c15TLSCase struct {
	Earlier   int  `json:"earlier"`   // requests whose handlers answer only after the upgrade
	Answers   int  `json:"answers"`   // responses each of them writes
	After     int  `json:"after"`     // requests sent inside the tunnel while the earlier handlers write
	Handshake bool `json:"handshake"` // the client completes the handshake (otherwise it stays silent and the upgrade fails)
	DelayUs   int  `json:"delay_us"`  // gate opens this long after the StartTLS handler returned
	DuringHS  bool `json:"during_hs"` // gate opens when the StartTLS handler is entered instead (writes race the handshake)
}

func c15TLSExec(c c15TLSCase, st *lab.Stats) *lab.Fail {
	pki, _, err := lab.SharedPKI()
	if err != nil {
		st.Inconclusive(err.Error())
		return nil
	}
	g := newGate()
	defer g.open()
	h := func(w *gldap.ResponseWriter, r *gldap.Request) {
		_, id, _ := gldap.VerifMessageInfo(r)
		if id < 100 { // an earlier request: answers after the gate
			g.wait(10 * time.Second)
			for i := 0; i < c.Answers; i++ {
				e := r.NewSearchResponseEntry("cn=late")
				e.AddAttribute("a", []string{"v"})
				if w.Write(e) != nil {
					return
				}
			}
		}
		_ = respondOK(w, r)
	}
	inner := lab.StartTLSHandler(pki.ServerTLS())
	mux, _ := gldap.NewMux()
	_ = mux.DefaultRoute(h)
	_ = mux.ExtendedOperation(func(w *gldap.ResponseWriter, r *gldap.Request) {
		if c.DuringHS {
			g.open()
		}
		inner(w, r)
	}, gldap.ExtendedOperationStartTLS)
	srv, err := lab.StartServer(mux, lab.ServerOpts{})
	if err != nil {
		st.Inconclusive(err.Error())
		return nil
	}
	defer func() { _ = srv.Stop(15 * time.Second) }()
	raw, err := net.DialTimeout("tcp", srv.Addr, 5*time.Second)
	if err != nil {
		st.Inconclusive(err.Error())
		return nil
	}
	defer raw.Close()
	st.Case(c.Earlier > 0, lab.JSONKey(c), "handshake="+boolStr(c.Handshake), "during-handshake="+boolStr(c.DuringHS))
	st.Sample(c)
	var buf []byte
	for i := 0; i < c.Earlier; i++ {
		buf = append(buf, simpleReq("search", int64(1+i)).Bytes()...)
	}
	buf = append(buf, ReqSpec{Req: wire.Req{Kind: "extended", MsgID: 500, ExtName: []byte(wire.OIDStartTLS)}}.Bytes()...)
	if _, err := raw.Write(buf); err != nil {
		st.Inconclusive(err.Error())
		return nil
	}
	// the StartTLS response is the first frame (the earlier handlers are gated)
	cl := lab.Wrap(raw)
	if !c.DuringHS {
		if _, err := cl.Next(10 * time.Second); err != nil {
			st.Inconclusive("no StartTLS response: " + err.Error())
			return nil
		}
	}
	var tc *tls.Conn
	if c.Handshake {
		tc = tls.Client(raw, pki.ClientTLS(false))
		_ = tc.SetDeadline(time.Now().Add(3 * time.Second))
		_ = tc.Handshake() // may fail when late plaintext answers hit the stream: not judged
	} else {
		time.Sleep(2 * time.Millisecond)
		raw.Close() // the server's handshake fails
	}
	// the gate is opened by the clock alone: a channel from the StartTLS handler to this goroutine would order the
	// upgrade before the earlier handlers' writes and hide exactly the races this part is looking for (the race
	// detector sees no ordering through the socket)
	time.Sleep(time.Duration(c.DelayUs) * time.Microsecond)
	g.open()
	if tc != nil {
		for i := 0; i < c.After; i++ {
			_, _ = tc.Write(simpleReq("search", int64(600+i)).Bytes())
		}
		b := make([]byte, 4096)
		_ = tc.SetDeadline(time.Now().Add(30 * time.Millisecond))
		for {
			if _, err := tc.Read(b); err != nil {
				break
			}
		}
	} else {
		time.Sleep(5 * time.Millisecond)
	}
	return nil
}

func boolStr(b bool) string {
	if b {
		return "true"
	}
	return "false"
}

func TestC15StartTLSBehindHandlers(t *testing.T) {
	lab.Prop[c15TLSCase]{
		ID: "C15", Part: "starttls-behind-handlers",
		Rule: "rapid: one connection pipelines 0..4 requests whose handlers answer (1..3 responses each) only AFTER the StartTLS request behind them has upgraded the connection - or while its handshake is running, or after it failed because the client went away -, then 0..4 requests inside the tunnel; oracle = Go race detector only (what such late responses look like on the wire is not judged); non-trivial = >= 1 earlier handler; distinct by hash",
		Gen: func(t *rapid.T) c15TLSCase {
			return c15TLSCase{
				Earlier: rapid.IntRange(0, 4).Draw(t, "earlier"), Answers: rapid.IntRange(1, 3).Draw(t, "answers"), After: rapid.IntRange(0, 4).Draw(t, "after"),
				Handshake: rapid.IntRange(0, 4).Draw(t, "handshake") > 0, DelayUs: rapid.SampledFrom([]int{0, 50, 500, 3000}).Draw(t, "delay"),
				DuringHS: rapid.IntRange(0, 3).Draw(t, "duringhs") == 0,
			}
		},
		Exec: c15TLSExec,
	}.Run(t)
}
