package props

import (
	"fmt"
	"testing"

	"github.com/jimlambrt/gldap"
)

// FuzzC16ConvertString: coverage-guided search for a ConvertString panic.
func FuzzC16ConvertString(f *testing.F) {
	for _, s := range []string{"", "\x04", "\x04\x03abc", "\x1b\x02hi", "\x04\x81", "\x04\x82\x01", "\x04\x88", "\x04\xff", "\x04\x80", "\x05\x00", "\x04\x81\x80" + string(make([]byte, 128))} {
		f.Add(s, "\x04\x01a")
	}
	f.Fuzz(func(t *testing.T, a, b string) {
		site, val, _ := guard(func() { _, _ = gldap.ConvertString(a, b) })
		if val != nil {
			fmt.Printf("FINGERPRINT=panic:%s:%s\n", site, panicClass(val))
			t.Fatalf("ConvertString(%q,%q) panicked: %v", a, b, val)
		}
	})
}
