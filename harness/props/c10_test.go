package props

import (
	"fmt"
	"sort"
	"sync"
	"testing"
	"time"

	"github.com/jimlambrt/gldap"
	"pgregory.net/rapid"

	"verifharness/lab"
	"verifharness/wire"
)

type c10Req struct {
	Op      string `json:"op"`
	Blocked bool   `json:"blocked,omitempty"` // pre only: handler waits for the gate
	Panics  bool   `json:"panics,omitempty"`  // pre only: handler panics after it has answered (recovery is enabled)
}

type c10Case struct {
	Pre          []c10Req `json:"pre"`
	Post         []c10Req `json:"post"` // may contain further "unbind"
	UnbindRoute  bool     `json:"unbind_route"`
	DefaultRoute bool     `json:"default_route"`
	Split        []int    `json:"split,omitempty"`
	GateDelayMs  int      `json:"gate_delay_ms"`
	UnbindBody   []byte   `json:"unbind_body,omitempty"`   // content octets of the Unbind (normally none)
	UnbindPanics bool     `json:"unbind_panics,omitempty"` // the unbind handler panics (recovery is enabled)
	// WriteTimeoutMs > 0: the server is configured WithWriteTimeout of that many ms and the client sends its
	// pipeline only after the deadline has passed: every response write of the connection fails. What the Unbind
	// demands (handler once, nothing after it served, connection closed) is independent of that; the responses
	// to the earlier requests are then not demanded.
	WriteTimeoutMs int `json:"write_timeout_ms,omitempty"`
}

func c10Exec(c c10Case, st *lab.Stats) *lab.Fail {
	log := &evLog{}
	g := newGate()
	defer g.open()
	blockedSet := map[int64]bool{}
	panicSet := map[int64]bool{}
	for i, q := range c.Pre {
		if q.Blocked {
			blockedSet[int64(i+1)] = true
		}
		if q.Panics {
			panicSet[int64(i+1)] = true
		}
	}
	var mu sync.Mutex
	unbindEntered := 0
	handler := func(label string) gldap.HandlerFunc {
		return func(w *gldap.ResponseWriter, r *gldap.Request) {
			kind, id, _ := gldap.VerifMessageInfo(r)
			log.add(event{Kind: "enter", ConnID: r.ConnectionID(), MsgID: id, ReqID: r.ID, Label: label + "/" + kind})
			if kind == "unbind" {
				mu.Lock()
				unbindEntered++
				mu.Unlock()
				if c.UnbindPanics && label == "unbind" {
					log.add(event{Kind: "exit", ConnID: r.ConnectionID(), MsgID: id, ReqID: r.ID, Label: label})
					var m map[string]int
					m["boom"] = 1 // nil map write
				}
			}
			if blockedSet[id] && label != "unbind" {
				g.wait(20 * time.Second)
			}
			if kind != "unbind" {
				_ = respondOK(w, r)
			}
			log.add(event{Kind: "exit", ConnID: r.ConnectionID(), MsgID: id, ReqID: r.ID, Label: label})
			if panicSet[id] && label != "unbind" && kind != "unbind" {
				var m map[string]int
				m["boom"] = 1 // an earlier handler of the connection panics (recovered by the server)
			}
		}
	}
	mux, _ := gldap.NewMux()
	_ = mux.Bind(handler("route"))
	_ = mux.Search(handler("route"))
	_ = mux.Modify(handler("route"))
	_ = mux.Add(handler("route"))
	_ = mux.Delete(handler("route"))
	_ = mux.ExtendedOperation(handler("route"), "1.3.6.1.4.1.4203.1.11.3")
	_ = mux.ExtendedOperation(handler("starttls-route"), gldap.ExtendedOperationStartTLS)
	if c.UnbindRoute {
		_ = mux.Unbind(handler("unbind"))
	}
	if c.DefaultRoute {
		_ = mux.DefaultRoute(handler("default"))
	}
	closed := make(chan int, 4)
	srv, err := lab.StartServer(mux, lab.ServerOpts{WriteTimeout: time.Duration(c.WriteTimeoutMs) * time.Millisecond, OnClose: func(id int) {
		log.add(event{Kind: "onclose", ConnID: id})
		closed <- id
	}})
	if err != nil {
		st.Inconclusive(err.Error())
		return nil
	}
	defer func() { _ = srv.Stop(15 * time.Second) }()
	cl, err := lab.Dial(srv.Addr)
	if err != nil {
		st.Inconclusive(err.Error())
		return nil
	}
	defer cl.Close()
	var buf []byte
	for i, q := range c.Pre {
		buf = append(buf, simpleReq(q.Op, int64(i+1)).Bytes()...)
	}
	unbindID := int64(len(c.Pre) + 1)
	ub := simpleReq("unbind", unbindID)
	if len(c.UnbindBody) > 0 {
		ub = ReqSpec{Req: wire.Req{Kind: "raw", MsgID: unbindID, RawTag: wire.AppUnbindRequest, RawContent: c.UnbindBody}}
	}
	buf = append(buf, ub.Bytes()...)
	postIDs := map[int64]bool{}
	for i, q := range c.Post {
		id := unbindID + 1 + int64(i)
		postIDs[id] = true
		if q.Op == "starttls" {
			buf = append(buf, ReqSpec{Req: wire.Req{Kind: "extended", MsgID: id, ExtName: []byte(wire.OIDStartTLS)}}.Bytes()...)
			continue
		}
		buf = append(buf, simpleReq(q.Op, id).Bytes()...)
	}
	nblocked := len(blockedSet)
	st.Case(len(c.Post) >= 1 && len(c.Split) == 0, lab.JSONKey(c), fmt.Sprintf("pre=%d", len(c.Pre)), fmt.Sprintf("post=%d", len(c.Post)),
		fmt.Sprintf("blocked=%d", min(nblocked, 3)), fmt.Sprintf("unbindroute=%v", c.UnbindRoute), fmt.Sprintf("defaultroute=%v", c.DefaultRoute), fmt.Sprintf("split=%v", len(c.Split) > 0))
	st.Sample(c)
	if c.WriteTimeoutMs > 0 {
		st.Class("write-deadline-passed-before-the-pipeline")
		time.Sleep(time.Duration(c.WriteTimeoutMs+15) * time.Millisecond)
	}
	if len(panicSet) > 0 {
		st.Class("earlier-handler-panicked")
	}
	go sendSplit(cl, buf, c.Split)
	go func() {
		time.Sleep(time.Duration(c.GateDelayMs) * time.Millisecond)
		log.add(event{Kind: "gate-open"})
		g.open()
	}()
	frames, how, endSeq := readUntilClosed(cl, 8*time.Second)
	evs := log.snapshot()
	// no post request is ever dispatched
	for _, e := range evs {
		if e.Kind == "enter" && postIDs[e.MsgID] {
			return lab.Failf("post-unbind-dispatched", "request msgid=%d sent AFTER the Unbind was dispatched to handler %s", e.MsgID, e.Label)
		}
	}
	if how == "timeout" {
		return lab.Failf("not-closed-after-unbind", "connection still open 8 s after the Unbind (blocked pre handlers were released after %d ms)", c.GateDelayMs)
	}
	if how == "malformed" {
		return lab.Failf("malformed-frame", "malformed frame on the connection")
	}
	select {
	case <-closed:
	case <-time.After(8 * time.Second):
		return lab.Failf("not-closed-after-unbind", "OnClose not called within 8 s after the Unbind")
	}
	evs = log.snapshot()
	for _, e := range evs {
		if e.Kind == "enter" && postIDs[e.MsgID] {
			return lab.Failf("post-unbind-dispatched", "request msgid=%d sent AFTER the Unbind was dispatched to handler %s", e.MsgID, e.Label)
		}
	}
	// only pre requests are answered, each exactly once; nothing for the unbind
	got := map[int64]int{}
	for _, m := range frames {
		if m.ID == 0 {
			continue // unsolicited notice tolerated
		}
		if m.ID == unbindID {
			return lab.Failf("unbind-answered", "a response with the Unbind's message ID was sent")
		}
		if m.ID > unbindID {
			return lab.Failf("post-unbind-answered", "a response to request msgid=%d, which followed the Unbind, was sent", m.ID)
		}
		got[m.ID]++
	}
	// A client that sends requests BEHIND its Unbind leaves unread bytes in the server's receive buffer; closing
	// such a socket makes the kernel send a reset and drop what it has not transmitted yet, so the tail of the
	// earlier handlers' responses can be lost on the way - the client's doing, and nothing the statement
	// promises. Then only duplicates count; with a well-behaved client every earlier response must arrive.
	lossy := len(c.Post) > 0 && how == "reset"
	for i := range c.Pre {
		if c.WriteTimeoutMs > 0 && got[int64(i+1)] <= 1 {
			continue // the write deadline had passed: the response is not demanded
		}
		if lossy && got[int64(i+1)] == 0 {
			st.Class("pre-response-lost-to-reset(client sent data behind its unbind)")
			continue
		}
		if got[int64(i+1)] != 1 {
			return lab.Failf("pre-response-count", "pre request %d got %d responses (%d frames received in all, connection ended with %s; responses per message ID: %v)", i+1, got[int64(i+1)], len(frames), how, got)
		}
	}
	mu.Lock()
	ue := unbindEntered
	mu.Unlock()
	want := 0
	if c.UnbindRoute {
		want = 1
	}
	if len(c.UnbindBody) > 0 && ue <= want {
		// an Unbind that carries content octets is not well formed: whether its handler runs is not demanded
	} else if ue != want {
		return lab.Failf("unbind-handler-count", "unbind handler ran %d times (unbind route registered: %v, default route: %v)", ue, c.UnbindRoute, c.DefaultRoute)
	}
	// the close came only after every pre handler returned
	var exits []int64
	for _, e := range evs {
		if e.Kind == "exit" {
			exits = append(exits, e.Seq)
		}
	}
	sort.Slice(exits, func(i, j int) bool { return exits[i] < exits[j] })
	if len(exits) > 0 && exits[len(exits)-1] > endSeq {
		return lab.Failf("closed-before-handlers-finished", "the client saw the connection end (%s, seq %d) before a pre handler had returned (seq %d)", how, endSeq, exits[len(exits)-1])
	}
	for _, e := range evs {
		if e.Kind == "onclose" && len(exits) > 0 && e.Seq < exits[len(exits)-1] {
			return lab.Failf("onclose-before-handlers-finished", "OnClose (seq %d) ran before a pre handler had returned (seq %d)", e.Seq, exits[len(exits)-1])
		}
	}
	return nil
}

func TestC10(t *testing.T) {
	ops := []string{"bind", "search", "modify", "add", "delete", "extended"}
	lab.Prop[c10Case]{
		ID: "C10", Part: "unbind",
		Rule: "rapid: pipelines <0..8 requests (one case in eight: 15..128 requests whose handlers are ALL still blocked)> Unbind <0..8 requests, possibly further Unbinds>, written in one write() or split at generated byte offsets; unbind route absent/present (its handler may panic, recovery enabled), default route absent/present; the Unbind occasionally carries (ill-formed) content octets; any subset of the earlier handlers blocked on a gate that opens 0..40 ms later (about one case in 60: 2.3..5.2 s later); one earlier handler in six panics after answering (recovered); one case in six runs against a server whose write deadline (1..20 ms) has passed before the pipeline is sent, so that every response write fails (earlier responses then not demanded); oracle = unbind handler exactly once iff registered, no handler entry and no response for anything after the Unbind, no response to the Unbind, every earlier request answered once, connection closed and only after the blocked handlers returned (global sequence numbers); non-trivial = >= 1 request pipelined behind the Unbind in the same write(); distinct by hash",
		Gen: func(t *rapid.T) c10Case {
			c := c10Case{
				UnbindRoute:  rapid.Bool().Draw(t, "unbindroute"),
				DefaultRoute: rapid.Bool().Draw(t, "defaultroute"),
				GateDelayMs:  rapid.SampledFrom([]int{0, 1, 5, 20, 40}).Draw(t, "gatedelay"),
			}
			np := rapid.IntRange(0, 8).Draw(t, "npre")
			crowd := rapid.IntRange(0, 7).Draw(t, "crowd") == 0
			if crowd {
				// a crowd of earlier handlers all still running when the Unbind is read
				np = rapid.SampledFrom([]int{15, 16, 17, 32, 64, 128}).Draw(t, "ncrowd")
			}
			for i := 0; i < np; i++ {
				c.Pre = append(c.Pre, c10Req{Op: rapid.SampledFrom(ops).Draw(t, "preop"), Blocked: crowd || rapid.IntRange(0, 2).Draw(t, "blocked") == 0,
					Panics: !crowd && rapid.IntRange(0, 5).Draw(t, "prepanics") == 0})
			}
			// an earlier handler that is busy for seconds when the Unbind arrives (about one case in 60): the connection is
			// closed "once earlier in-flight handlers have finished", however long that takes
			if np > 0 && !crowd && rapid.IntRange(0, 59).Draw(t, "longgate") == 31 {
				c.Pre[0].Blocked = true
				c.GateDelayMs = rapid.SampledFrom([]int{2300, 3600, 5200}).Draw(t, "longgatems")
			}
			npo := rapid.IntRange(0, 8).Draw(t, "npost")
			for i := 0; i < npo; i++ {
				c.Post = append(c.Post, c10Req{Op: rapid.SampledFrom(append([]string{"unbind", "starttls"}, ops...)).Draw(t, "postop")})
			}
			if rapid.IntRange(0, 5).Draw(t, "unbindbody") == 0 {
				c.UnbindBody = rapid.SampledFrom([][]byte{{0}, {5, 0}, {0, 0, 0}}).Draw(t, "body")
			}
			c.UnbindPanics = c.UnbindRoute && rapid.IntRange(0, 4).Draw(t, "unbindpanics") == 0
			if rapid.IntRange(0, 5).Draw(t, "wtimeout") == 0 {
				c.WriteTimeoutMs = rapid.SampledFrom([]int{1, 5, 20}).Draw(t, "wtimeoutms")
			}
			if rapid.IntRange(0, 2).Draw(t, "split") == 0 {
				c.Split = rapid.SliceOfN(rapid.IntRange(1, 999), 1, 4).Draw(t, "cuts")
			}
			return c
		},
		Exec: c10Exec,
	}.Run(t)
}
