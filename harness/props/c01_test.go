package props

import (
	"bytes"
	"fmt"
	"sort"
	"sync"
	"testing"
	"time"

	"github.com/go-ldap/ldap/v3"
	"github.com/jimlambrt/gldap"
	"pgregory.net/rapid"

	"verifharness/lab"
	"verifharness/wire"
)

// Obs is the deep copy a recording handler takes of a decoded request.
type Obs struct {
	Route    string   `json:"route"`
	ReqID    int      `json:"req_id"`
	ConnID   int      `json:"conn_id"`
	Kinds    []string `json:"kinds"` // Get*Message calls that succeeded
	MsgID    int64    `json:"msgid"`
	HookKind string   `json:"hook_kind"`
	HookID   int64    `json:"hook_id"`
	HookExt  string   `json:"hook_ext"`

	DN        string      `json:"dn"`
	Password  string      `json:"password"`
	Auth      string      `json:"auth"`
	Scope     int64       `json:"scope"`
	Deref     int64       `json:"deref"`
	Size      int64       `json:"size"`
	Time      int64       `json:"time"`
	TypesOnly bool        `json:"types_only"`
	Filter    string      `json:"filter"`
	Attrs     []string    `json:"attrs"`
	Changes   []ObsChange `json:"changes"`
	AddAttrs  []ObsChange `json:"add_attrs"`
	Ctls      []ObsCtl    `json:"ctls"`
	Seq       int64       `json:"seq"`
}

type ObsChange struct {
	Op   int64    `json:"op"`
	Type string   `json:"type"`
	Vals []string `json:"vals"`
}

func observe(r *gldap.Request, route string) Obs {
	o := Obs{Route: route, ReqID: r.ID, ConnID: r.ConnectionID(), Seq: lab.NextSeq()}
	o.HookKind, o.HookID, o.HookExt = gldap.VerifMessageInfo(r)
	ctls := func(cs []gldap.Control) {
		for _, c := range cs {
			o.Ctls = append(o.Ctls, observeCtl(c))
		}
	}
	if m, err := r.GetSimpleBindMessage(); err == nil && m != nil {
		o.Kinds = append(o.Kinds, "bind")
		o.MsgID, o.DN, o.Password, o.Auth = m.GetID(), m.UserName, string(m.Password), string(m.AuthChoice)
		ctls(m.Controls)
	}
	if m, err := r.GetSearchMessage(); err == nil && m != nil {
		o.Kinds = append(o.Kinds, "search")
		o.MsgID, o.DN, o.Scope, o.Deref, o.Size, o.Time, o.TypesOnly, o.Filter = m.GetID(), m.BaseDN, int64(m.Scope), int64(m.DerefAliases), m.SizeLimit, m.TimeLimit, m.TypesOnly, m.Filter
		o.Attrs = append([]string{}, m.Attributes...)
		ctls(m.Controls)
	}
	if m, err := r.GetModifyMessage(); err == nil && m != nil {
		o.Kinds = append(o.Kinds, "modify")
		o.MsgID, o.DN = m.GetID(), m.DN
		for _, c := range m.Changes {
			o.Changes = append(o.Changes, ObsChange{Op: c.Operation, Type: c.Modification.Type, Vals: append([]string{}, c.Modification.Vals...)})
		}
		ctls(m.Controls)
	}
	if m, err := r.GetAddMessage(); err == nil && m != nil {
		o.Kinds = append(o.Kinds, "add")
		o.MsgID, o.DN = m.GetID(), m.DN
		for _, a := range m.Attributes {
			o.AddAttrs = append(o.AddAttrs, ObsChange{Type: a.Type, Vals: append([]string{}, a.Vals...)})
		}
		ctls(m.Controls)
	}
	if m, err := r.GetDeleteMessage(); err == nil && m != nil {
		o.Kinds = append(o.Kinds, "delete")
		o.MsgID, o.DN = m.GetID(), m.DN
		ctls(m.Controls)
	}
	if m, err := r.GetUnbindMessage(); err == nil && m != nil {
		o.Kinds = append(o.Kinds, "unbind")
		o.MsgID = m.GetID()
	}
	return o
}

// compareObs checks field by field that the handler saw what was encoded.
func compareObs(want ReqSpec, got Obs) *lab.Fail {
	k := want.Kind
	ff := func(field, format string, a ...interface{}) *lab.Fail {
		return lab.Failf("field:"+k+":"+field, "%s request msgid=%d: "+format, append([]interface{}{k, want.MsgID}, a...)...)
	}
	if k == "extended" {
		if len(got.Kinds) != 0 {
			return ff("kind", "extended request was delivered as %v", got.Kinds)
		}
		if got.HookKind != "extended" {
			return ff("kind", "decoded message kind is %q", got.HookKind)
		}
		if got.HookID != want.MsgID {
			return ff("msgid", "handler saw message ID %d", got.HookID)
		}
		if got.HookExt != string(want.ExtName) {
			return ff("extname", "extended name %q, want %q", got.HookExt, want.ExtName)
		}
		return nil
	}
	if len(got.Kinds) != 1 || got.Kinds[0] != k {
		return ff("kind", "Get*Message succeeded for %v, want exactly [%s]", got.Kinds, k)
	}
	if got.MsgID != want.MsgID {
		return ff("msgid", "handler saw message ID %d", got.MsgID)
	}
	if k == "unbind" {
		return nil
	}
	if got.DN != string(want.DN) {
		return ff("dn", "DN %q, want %q", truncate(got.DN), truncate(string(want.DN)))
	}
	switch k {
	case "bind":
		if got.Password != string(want.Password) {
			return ff("password", "password %q, want %q", truncate(got.Password), truncate(string(want.Password)))
		}
		if got.Auth != "simple" {
			return ff("auth", "auth choice %q", got.Auth)
		}
	case "search":
		if got.Scope != want.Scope {
			return ff("scope", "scope %d, want %d", got.Scope, want.Scope)
		}
		if got.Deref != want.Deref {
			return ff("deref", "derefAliases %d, want %d", got.Deref, want.Deref)
		}
		if got.Size != want.SizeLimit {
			return ff("sizelimit", "size limit %d, want %d (time limit sent: %d)", got.Size, want.SizeLimit, want.TimeLimit)
		}
		if got.Time != want.TimeLimit {
			return ff("timelimit", "time limit %d, want %d (size limit sent: %d)", got.Time, want.TimeLimit, want.SizeLimit)
		}
		if got.TypesOnly != want.TypesOnly {
			return ff("typesonly", "typesOnly %v, want %v", got.TypesOnly, want.TypesOnly)
		}
		p, err := ldap.CompileFilter(got.Filter)
		if err != nil {
			return ff("filter", "handler's filter string %q does not compile: %v (sent %q)", got.Filter, err, want.FilterStr)
		}
		if !bytes.Equal(p.Bytes(), want.Filter) {
			return ff("filter", "handler's filter %q is not equivalent to the filter sent %q", got.Filter, want.FilterStr)
		}
		if len(got.Attrs) != len(want.Attrs) {
			return ff("attrs", "%d requested attributes, want %d", len(got.Attrs), len(want.Attrs))
		}
		for i := range want.Attrs {
			if got.Attrs[i] != string(want.Attrs[i]) {
				return ff("attrs", "requested attribute %d is %q, want %q", i, got.Attrs[i], want.Attrs[i])
			}
		}
	case "modify":
		if len(got.Changes) != len(want.Changes) {
			return ff("changes", "%d changes, want %d", len(got.Changes), len(want.Changes))
		}
		for i, wc := range want.Changes {
			gc := got.Changes[i]
			if gc.Op != wc.Op {
				return ff("change-op", "change %d operation %d, want %d", i, gc.Op, wc.Op)
			}
			if gc.Type != string(wc.Type) {
				return ff("change-type", "change %d type %q, want %q", i, gc.Type, wc.Type)
			}
			if len(gc.Vals) != len(wc.Vals) {
				return ff("change-vals", "change %d has %d value elements for %d client values: %q", i, len(gc.Vals), len(wc.Vals), truncList(gc.Vals))
			}
			for j, wv := range wc.Vals {
				if !plainOrWrapped(gc.Vals[j], wv) {
					return ff("change-vals", "change %d value %d is %q, want %q plain or as one BER OCTET STRING", i, j, truncate(gc.Vals[j]), truncate(string(wv)))
				}
			}
		}
	case "add":
		if len(got.AddAttrs) != len(want.AddAttrs) {
			return ff("add-attrs", "%d attributes, want %d", len(got.AddAttrs), len(want.AddAttrs))
		}
		for i, wa := range want.AddAttrs {
			ga := got.AddAttrs[i]
			if ga.Type != string(wa.Type) {
				return ff("add-attrs", "attribute %d type %q, want %q", i, ga.Type, wa.Type)
			}
			if len(ga.Vals) != len(wa.Vals) {
				return ff("add-vals", "attribute %d has %d values, want %d", i, len(ga.Vals), len(wa.Vals))
			}
			for j := range wa.Vals {
				if ga.Vals[j] != string(wa.Vals[j]) {
					return ff("add-vals", "attribute %d value %d is %q, want %q", i, j, truncate(ga.Vals[j]), truncate(string(wa.Vals[j])))
				}
			}
		}
	}
	if len(got.Ctls) != len(want.Ctls) {
		return ff("controls", "%d controls, want %d", len(got.Ctls), len(want.Ctls))
	}
	for i := range want.Ctls {
		if err := checkCtl(want.Ctls[i], got.Ctls[i]); err != nil {
			return ff("control:"+want.Ctls[i].Kind, "control %d: %v", i, err)
		}
	}
	return nil
}

func truncList(l []string) []string {
	var out []string
	for _, s := range l {
		out = append(out, truncate(s))
	}
	return out
}

// plainOrWrapped: the element is the value itself or exactly one complete BER
// OCTET STRING (or GeneralString) TLV whose content is the value.
func plainOrWrapped(got string, want []byte) bool {
	if got == string(want) {
		return true
	}
	n, used, err := wire.ParseOne([]byte(got))
	if err != nil || used != len(got) {
		return false
	}
	if n.Class != wire.Universal || n.Constructed || (n.Tag != wire.TagOctetString && n.Tag != wire.TagGeneral) {
		return false
	}
	return bytes.Equal(n.Data, want)
}

func nontrivialReq(r ReqSpec) bool {
	lists := len(r.Attrs) >= 2 || len(r.Changes) >= 2 || len(r.AddAttrs) >= 2
	for _, c := range r.Changes {
		lists = lists || len(c.Vals) >= 2
	}
	for _, a := range r.AddAttrs {
		lists = lists || len(a.Vals) >= 2
	}
	return lists || len(r.Ctls) >= 1 || (r.Kind == "search" && (r.SizeLimit != r.TimeLimit || r.Scope != r.Deref))
}

func reqClasses(r ReqSpec) []string {
	cls := []string{"op=" + r.Kind, fmt.Sprintf("nctl=%d", len(r.Ctls))}
	for _, c := range r.Ctls {
		cls = append(cls, "ctl="+c.Kind)
	}
	if r.FilterRejected {
		cls = append(cls, "filter-outside-goldap-roundtrip-domain(replaced)")
	}
	for _, c := range r.Changes {
		cls = append(cls, fmt.Sprintf("modify-nvals=%d", len(c.Vals)))
	}
	return cls
}

// ---- C01 over TCP ----------------------------------------------------------

type c01Case struct {
	Reqs []ReqSpec `json:"reqs"`
	// Tail: "" nothing, "unbind", "unsupported"
	Tail        string  `json:"tail"`
	Unsupported ReqSpec `json:"unsupported"`
	Split       []int   `json:"split,omitempty"` // write() boundaries (per mille of the stream)
	// Sequential: the client sends one request at a time and waits for its response; message IDs then
	// come from a pool of three values, so an ID is reused as soon as the earlier exchange has completed
	// (legal: RFC 4511 4.1.1.1 only forbids reuse while the earlier request is outstanding). LingerUs:
	// the handler stays in its function that long after writing its response.
	Sequential bool `json:"sequential,omitempty"`
	LingerUs   int  `json:"linger_us,omitempty"`
}

type recorder struct {
	mu     sync.Mutex
	obs    []Obs
	ch     chan struct{}
	linger time.Duration // handlers stay that long in their function after responding
}

func (rc *recorder) add(o Obs) {
	rc.mu.Lock()
	rc.obs = append(rc.obs, o)
	rc.mu.Unlock()
	select {
	case rc.ch <- struct{}{}:
	default:
	}
}

func (rc *recorder) snapshot() []Obs {
	rc.mu.Lock()
	defer rc.mu.Unlock()
	return append([]Obs{}, rc.obs...)
}

// recordingMux registers a labelled recording handler on every route kind.
func recordingMux(rc *recorder, extNames []string, respond bool) *gldap.Mux {
	mux, _ := gldap.NewMux()
	h := func(label string) gldap.HandlerFunc {
		return func(w *gldap.ResponseWriter, r *gldap.Request) {
			rc.add(observe(r, label))
			if respond && label != "unbind" {
				_ = w.Write(r.NewResponse(gldap.WithResponseCode(gldap.ResultSuccess), gldap.WithDiagnosticMessage(label)))
				if rc.linger > 0 {
					time.Sleep(rc.linger)
				}
			}
		}
	}
	_ = mux.Bind(h("bind"))
	_ = mux.Search(h("search"))
	_ = mux.Modify(h("modify"))
	_ = mux.Add(h("add"))
	_ = mux.Delete(h("delete"))
	for _, n := range extNames {
		_ = mux.ExtendedOperation(h("ext:"+n), gldap.ExtendedOperationName(n))
	}
	_ = mux.Unbind(h("unbind"))
	_ = mux.DefaultRoute(h("default"))
	return mux
}

func sendSplit(cl *lab.Client, buf []byte, split []int) {
	if len(split) == 0 {
		_ = cl.Send(buf)
		return
	}
	var cuts []int
	for _, s := range split {
		cuts = append(cuts, len(buf)*s/1000)
	}
	sort.Ints(cuts)
	prev := 0
	for _, c := range cuts {
		if c > prev && c < len(buf) {
			_ = cl.Send(buf[prev:c])
			time.Sleep(200 * time.Microsecond)
			prev = c
		}
	}
	_ = cl.Send(buf[prev:])
}

// c01ExecSequential: one request at a time on one connection, message IDs reused between exchanges.
func c01ExecSequential(c c01Case, st *lab.Stats) *lab.Fail {
	rc := &recorder{ch: make(chan struct{}, 1), linger: time.Duration(c.LingerUs) * time.Microsecond}
	extSet := map[string]bool{}
	var exts []string
	for _, r := range c.Reqs {
		if r.Kind == "extended" && !extSet[string(r.ExtName)] {
			extSet[string(r.ExtName)] = true
			exts = append(exts, string(r.ExtName))
		}
		st.Case(nontrivialReq(r), append(r.Bytes(), 's'), append(reqClasses(r), "sequential-id-reuse")...)
	}
	st.Sample(c)
	srv, err := lab.StartServer(recordingMux(rc, exts, true), lab.ServerOpts{})
	if err != nil {
		st.Inconclusive(err.Error())
		return nil
	}
	defer func() { _ = srv.Stop(10 * time.Second) }()
	cl, err := lab.Dial(srv.Addr)
	if err != nil {
		st.Inconclusive(err.Error())
		return nil
	}
	defer cl.Abort()
	for i, r := range c.Reqs {
		_ = cl.Send(r.Bytes())
		m, err := cl.Next(10 * time.Second)
		if err != nil {
			return lab.Failf("no-response", "sequential exchange %d (%s msgid=%d, the ID was used by %d earlier completed exchanges): no response (%v); server log: %s", i, r.Kind, r.MsgID, countEarlier(c.Reqs, i), err, truncate(srv.Log.String()))
		}
		res, rerr := m.Result()
		if m.ID != r.MsgID || rerr != nil || res.Code != 0 {
			code := int64(-1)
			if rerr == nil {
				code = res.Code
			}
			return lab.Failf("sequential-response", "sequential exchange %d (%s msgid=%d, the ID was used by %d earlier completed exchanges): response has message ID %d, result code %d (want the handler's success)", i, r.Kind, r.MsgID, countEarlier(c.Reqs, i), m.ID, code)
		}
	}
	// handlers run one at a time here, so observation i belongs to request i
	deadline := time.Now().Add(5 * time.Second)
	for len(rc.snapshot()) < len(c.Reqs) && time.Now().Before(deadline) {
		time.Sleep(200 * time.Microsecond)
	}
	obs := rc.snapshot()
	if len(obs) != len(c.Reqs) {
		return lab.Failf("missing-dispatch", "%d handler invocations for %d sequential requests", len(obs), len(c.Reqs))
	}
	for i, r := range c.Reqs {
		o := obs[i]
		wantRoute := r.Kind
		if r.Kind == "extended" {
			wantRoute = "ext:" + string(r.ExtName)
		}
		if o.Route != wantRoute {
			return lab.Failf("field:"+r.Kind+":kind", "sequential request %d (%s msgid=%d) was served by route %q", i, r.Kind, r.MsgID, o.Route)
		}
		if f := compareObs(r, o); f != nil {
			return f
		}
	}
	return nil
}

func countEarlier(reqs []ReqSpec, i int) int {
	n := 0
	for j := 0; j < i; j++ {
		if reqs[j].MsgID == reqs[i].MsgID {
			n++
		}
	}
	return n
}

func c01ExecTCP(c c01Case, st *lab.Stats) *lab.Fail {
	if c.Sequential {
		return c01ExecSequential(c, st)
	}
	rc := &recorder{ch: make(chan struct{}, 1)}
	extSet := map[string]bool{}
	var exts []string
	for _, r := range c.Reqs {
		if r.Kind == "extended" && !extSet[string(r.ExtName)] {
			extSet[string(r.ExtName)] = true
			exts = append(exts, string(r.ExtName))
		}
		st.Case(nontrivialReq(r), r.Bytes(), reqClasses(r)...)
	}
	if c.Tail == "unsupported" {
		st.Case(true, c.Unsupported.Bytes(), "unsupported="+c.Unsupported.Kind+fmt.Sprintf("/tag=%d/ver=%d", c.Unsupported.RawTag, c.Unsupported.Version))
	}
	st.Sample(c)
	closed := make(chan int, 4)
	srv, err := lab.StartServer(recordingMux(rc, exts, true), lab.ServerOpts{OnClose: func(id int) { closed <- id }})
	if err != nil {
		st.Inconclusive(err.Error())
		return nil
	}
	defer func() { _ = srv.Stop(10 * time.Second) }()
	cl, err := lab.Dial(srv.Addr)
	if err != nil {
		st.Inconclusive(err.Error())
		return nil
	}
	defer cl.Abort()
	var buf []byte
	for _, r := range c.Reqs {
		buf = append(buf, r.Bytes()...)
	}
	switch c.Tail {
	case "unbind":
		buf = append(buf, ReqSpec{Req: wire.Req{Kind: "unbind", MsgID: 2147483000}}.Bytes()...)
	case "unsupported":
		buf = append(buf, c.Unsupported.Bytes()...)
	}
	go sendSplit(cl, buf, c.Split)

	// one response per supported request
	gotIDs := map[int64]int{}
	extra := 0
	for len(gotIDs) < len(c.Reqs) {
		m, err := cl.Next(10 * time.Second)
		if err != nil {
			if rec, ok := srv.PanicLogged(); ok {
				return lab.Failf("decode-panic-logged", "well-formed request made the server panic: %s", rec)
			}
			return lab.Failf("no-response", "only %d of %d well-formed requests were answered (%v); server log: %s", len(gotIDs), len(c.Reqs), err, truncate(srv.Log.String()))
		}
		if m.ID == 0 {
			extra++
			continue
		}
		gotIDs[m.ID]++
	}
	for _, r := range c.Reqs {
		if gotIDs[r.MsgID] != 1 {
			return lab.Failf("response-msgid", "request msgid=%d got %d responses (ids seen %v)", r.MsgID, gotIDs[r.MsgID], gotIDs)
		}
	}
	// tail handling
	wantObs := len(c.Reqs)
	switch c.Tail {
	case "unbind":
		wantObs++
		select {
		case <-closed:
		case <-time.After(10 * time.Second):
			return lab.Failf("unbind-not-closed", "connection not closed after Unbind")
		}
	case "unsupported":
		// either the connection ends, or somebody answers, or nothing happens
		for len(rc.snapshot()) <= len(c.Reqs) {
			select {
			case <-rc.ch: // stale wake-ups of the supported requests
				continue
			default:
			}
			break
		}
		select {
		case <-closed:
		case <-rc.ch:
			time.Sleep(20 * time.Millisecond)
		case <-time.After(2 * time.Second):
			st.Class("unsupported-ignored-by-server")
		}
	}
	obs := rc.snapshot()
	if len(obs) > wantObs {
		if c.Tail == "unsupported" {
			last := obs[len(obs)-1]
			return lab.Failf("unsupported-delivered", "unsupported request (%s tag=%d version=%d) was delivered to route %q as %v/%s", c.Unsupported.Kind, c.Unsupported.RawTag, c.Unsupported.Version, last.Route, last.Kinds, last.HookKind)
		}
		return lab.Failf("extra-dispatch", "%d handler invocations for %d requests", len(obs), wantObs)
	}
	if len(obs) < wantObs {
		return lab.Failf("missing-dispatch", "%d handler invocations for %d requests", len(obs), wantObs)
	}
	// match observations to requests
	byID := map[int64][]Obs{}
	var extObs []Obs
	for _, o := range obs {
		if len(o.Kinds) == 0 {
			extObs = append(extObs, o)
		} else {
			byID[o.MsgID] = append(byID[o.MsgID], o)
		}
	}
	sort.Slice(extObs, func(i, j int) bool { return extObs[i].ReqID < extObs[j].ReqID })
	ei := 0
	for _, r := range c.Reqs {
		var o Obs
		if r.Kind == "extended" {
			if ei >= len(extObs) {
				return lab.Failf("field:extended:kind", "extended request msgid=%d was not delivered as an extended request", r.MsgID)
			}
			o = extObs[ei]
			ei++
			wantRoute := "ext:" + string(r.ExtName)
			if o.Route != wantRoute {
				return lab.Failf("field:extended:extname", "extended request %q was served by route %q", r.ExtName, o.Route)
			}
		} else {
			l := byID[r.MsgID]
			if len(l) != 1 {
				return lab.Failf("field:"+r.Kind+":msgid", "%s request msgid=%d: %d handler observations carry that message ID", r.Kind, r.MsgID, len(l))
			}
			o = l[0]
			if o.Route != r.Kind {
				return lab.Failf("field:"+r.Kind+":kind", "%s request msgid=%d was served by route %q", r.Kind, r.MsgID, o.Route)
			}
		}
		if f := compareObs(r, o); f != nil {
			return f
		}
	}
	if c.Tail == "unbind" {
		l := byID[2147483000]
		if len(l) != 1 || l[0].Route != "unbind" {
			return lab.Failf("field:unbind:kind", "Unbind was observed %d times by the unbind route", len(l))
		}
		if f := compareObs(ReqSpec{Req: wire.Req{Kind: "unbind", MsgID: 2147483000}}, l[0]); f != nil {
			return f
		}
	}
	if rec, ok := srv.PanicLogged(); ok && c.Tail != "unsupported" {
		return lab.Failf("decode-panic-logged", "server logged a panic: %s", rec)
	}
	return nil
}

func genC01Case(maxReqs int, big bool) func(t *rapid.T) c01Case {
	return func(t *rapid.T) c01Case {
		var c c01Case
		n := rapid.IntRange(1, maxReqs).Draw(t, "nreqs")
		if rapid.IntRange(0, 19).Draw(t, "long") == 0 {
			n = rapid.IntRange(maxReqs, 64).Draw(t, "nreqs-long")
		}
		ids := distinctMsgIDs(t, n, 1)
		for i := 0; i < n; i++ {
			r := genReq("", big).Draw(t, "req")
			r.MsgID = ids[i]
			c.Reqs = append(c.Reqs, r)
		}
		c.Tail = rapid.SampledFrom([]string{"", "", "unbind", "unsupported", "unsupported"}).Draw(t, "tail")
		if c.Tail == "unsupported" {
			c.Unsupported = genUnsupported().Draw(t, "unsupported")
			c.Unsupported.MsgID = 2147483001
		}
		if rapid.Bool().Draw(t, "split") {
			c.Split = rapid.SliceOfN(rapid.IntRange(1, 999), 1, 4).Draw(t, "cuts")
		}
		if rapid.IntRange(0, 5).Draw(t, "sequential") == 0 {
			// one exchange at a time, IDs from a pool of three: reuse after completion
			c.Sequential, c.Tail, c.Split = true, "", nil
			pool := distinctMsgIDs(t, 3, 1)
			for i := range c.Reqs {
				c.Reqs[i].MsgID = pool[rapid.IntRange(0, 2).Draw(t, "idpool")]
			}
			c.LingerUs = rapid.SampledFrom([]int{0, 0, 100, 1000, 5000}).Draw(t, "linger")
		}
		return c
	}
}

const c01Rule = "rapid: pipelines of 1..12 (occasionally up to 64) typed requests of the six answerable operations with arbitrary byte strings, message IDs 1..2^31-1 (never equal to the arrival number), go-ldap-round-trippable filters from a recursive grammar, 0..4 attributes/changes/values and 0..4 controls of all kinds, encoded by the independent encoder; optional tail = Unbind or an unsupported operation / bind version != 3; one case in six is a SEQUENTIAL session (one exchange at a time, message IDs reused as soon as the earlier exchange has completed, handlers lingering 0..5 ms after responding); oracle = field-by-field equality with the deep copy the handler took; non-trivial = >= 2 list elements or >= 1 control or size != time / scope != deref; distinct by hash of the encoded request"

func TestC01TCP(t *testing.T) {
	lab.Prop[c01Case]{ID: "C01", Part: "tcp", Rule: c01Rule, Gen: genC01Case(12, true), Exec: c01ExecTCP}.Run(t)
}

// ---- C01 through the decode hook (volume) ------------------------------------

type c01HookCase struct {
	Req ReqSpec `json:"req"`
}

func TestC01Hook(t *testing.T) {
	lab.Prop[c01HookCase]{
		ID: "C01", Part: "hook",
		Rule: "rapid: one typed request (all seven operations incl. Unbind, big values at low weight) pushed through the server's decode path via the verif hook and compared field by field with the decoded message; plus unsupported operations / bind versions which must yield no request at all; non-trivial and distinct as in part tcp",
		Gen: func(t *rapid.T) c01HookCase {
			var c c01HookCase
			switch rapid.IntRange(0, 9).Draw(t, "which") {
			case 0:
				c.Req = genUnsupported().Draw(t, "unsupported")
			case 1:
				c.Req = genReq("unbind", false).Draw(t, "unbind")
			default:
				c.Req = genReq("", true).Draw(t, "req")
			}
			c.Req.MsgID = genMsgID().Draw(t, "msgid")
			return c
		},
		Exec: func(c c01HookCase, st *lab.Stats) *lab.Fail {
			b := c.Req.Bytes()
			unsupported := c.Req.Kind == "raw" || (c.Req.Kind == "bind" && c.Req.Version != 3)
			if unsupported {
				st.Case(true, b, fmt.Sprintf("unsupported=%s/tag=%d/ver=%d", c.Req.Kind, c.Req.RawTag, c.Req.Version))
			} else {
				st.Case(nontrivialReq(c.Req), b, reqClasses(c.Req)...)
			}
			st.Sample(c)
			var got []Obs
			var n int
			var derr error
			site, val, _ := guard(func() {
				n, derr = gldap.VerifDecodeStream(b, func(r *gldap.Request) { got = append(got, observe(r, "")) })
			})
			if val != nil {
				if unsupported {
					return nil // a panic on an unsupported request is C02's business
				}
				return lab.Failf("decode-panic:"+site, "well-formed %s request made the decoder panic: %v", c.Req.Kind, val)
			}
			if unsupported {
				if n != 0 {
					return lab.Failf("unsupported-delivered", "unsupported request (%s tag=%d version=%d) was decoded as %v/%s", c.Req.Kind, c.Req.RawTag, c.Req.Version, got[0].Kinds, got[0].HookKind)
				}
				return nil
			}
			if n != 1 {
				return lab.Failf("not-decoded:"+c.Req.Kind, "well-formed %s request was rejected: %v", c.Req.Kind, derr)
			}
			return compareObs(c.Req, got[0])
		},
	}.Run(t)
}
