package props

import (
	"fmt"
	"sync"
	"testing"
	"time"

	"github.com/jimlambrt/gldap"
	"pgregory.net/rapid"

	"verifharness/lab"
	"verifharness/wire"
)

type c06Req struct {
	Op      string `json:"op"`
	MsgID   int64  `json:"msgid"`
	WaitC   int    `json:"wait_conn"` // -1: does not block
	WaitPos int    `json:"wait_pos"`
}

type c06Case struct {
	Conns [][]c06Req `json:"conns"`
	// Drip: connection 0 sends request k+1 only after handler k has ENTERED (one
	// write per request) instead of one write for the whole pipeline.
	Drip bool `json:"drip,omitempty"`
	// StartTLS: connection 0 is upgraded with StartTLS first (request number 1 of
	// that connection); its pipeline then continues the numbering with 2, 3, ...
	StartTLS bool `json:"starttls,omitempty"`
}

const c06Stride = 1000000

func c06ReqSpec(q c06Req) ReqSpec {
	r := ReqSpec{}
	r.Kind = q.Op
	r.MsgID = q.MsgID
	switch q.Op {
	case "bind":
		r.Version, r.DN, r.Password = 3, []byte("cn=u"), []byte("p")
	case "search":
		r.DN = []byte("dc=x")
		r.Filter, _ = compileFilter("(objectClass=*)")
	case "modify":
		r.DN = []byte("cn=u")
		r.Changes = []wire.Change{{Op: 2, Type: []byte("a"), Vals: [][]byte{[]byte("v")}}}
	case "add":
		r.DN = []byte("cn=u")
	case "delete":
		r.DN = []byte("cn=u")
	case "extended":
		r.ExtName = []byte("1.3.6.1.4.1.4203.1.11.3")
	}
	return r
}

func genC06(t *rapid.T) c06Case {
	var c c06Case
	nc := rapid.IntRange(1, 8).Draw(t, "nconns")
	sizes := make([]int, nc)
	for i := range sizes {
		sizes[i] = rapid.IntRange(1, 24).Draw(t, "n")
		if rapid.IntRange(0, 15).Draw(t, "long") == 0 {
			sizes[i] = rapid.IntRange(64, 256).Draw(t, "n-long")
		}
	}
	mode := rapid.SampledFrom([]string{"random", "random", "reversed-chain", "all-wait-last", "cross", "deep-chain"}).Draw(t, "mode")
	if mode == "deep-chain" {
		// one long connection whose every handler waits for the LAST request of
		// the pipeline: up to 255 handlers of one connection are blocked at the
		// same time (in the reversed chain only two are, each is released as soon
		// as its successor has entered)
		sizes[0] = rapid.IntRange(100, 256).Draw(t, "deep-n")
		mode = "all-wait-last"
	}
	c.Drip = rapid.IntRange(0, 3).Draw(t, "drip") == 0
	c.StartTLS = rapid.IntRange(0, 4).Draw(t, "starttls") == 0
	for ci := 0; ci < nc; ci++ {
		n := sizes[ci]
		perm := rapid.Permutation(seqInts(n)).Draw(t, "perm")
		var reqs []c06Req
		for k := 0; k < n; k++ {
			q := c06Req{
				Op:    rapid.SampledFrom([]string{"bind", "search", "modify", "add", "delete", "extended"}).Draw(t, "op"),
				MsgID: int64(ci*c06Stride + perm[k] + 1),
				WaitC: -1,
			}
			switch mode {
			case "reversed-chain":
				if k+1 < n {
					q.WaitC, q.WaitPos = ci, k+1
				}
			case "all-wait-last":
				if k+1 < n {
					q.WaitC, q.WaitPos = ci, n-1
				}
			case "cross":
				if nc > 1 && rapid.Bool().Draw(t, "crosswait") {
					oc := (ci + 1 + rapid.IntRange(0, nc-2).Draw(t, "oc")) % nc
					q.WaitC, q.WaitPos = oc, rapid.IntRange(0, sizes[oc]-1).Draw(t, "opos")
				}
			default:
				switch rapid.IntRange(0, 3).Draw(t, "wait") {
				case 0:
					if k+1 < n {
						q.WaitC, q.WaitPos = ci, rapid.IntRange(k+1, n-1).Draw(t, "later")
					}
				case 1:
					if nc > 1 {
						oc := (ci + 1 + rapid.IntRange(0, nc-2).Draw(t, "oc")) % nc
						q.WaitC, q.WaitPos = oc, rapid.IntRange(0, sizes[oc]-1).Draw(t, "opos")
					}
				}
			}
			reqs = append(reqs, q)
		}
		c.Conns = append(c.Conns, reqs)
	}
	return c
}

func longest(c c06Case) int {
	m := 0
	for _, r := range c.Conns {
		if len(r) > m {
			m = len(r)
		}
	}
	return m
}

func seqInts(n int) []int {
	out := make([]int, n)
	for i := range out {
		out[i] = i
	}
	return out
}

func c06Exec(c c06Case, st *lab.Stats) *lab.Fail {
	type seen struct {
		connID, reqID int
	}
	total, edges := 0, 0
	posOf := map[int64][2]int{}
	entered := make([][]chan struct{}, len(c.Conns))
	obs := make([][]seen, len(c.Conns))
	for ci, reqs := range c.Conns {
		entered[ci] = make([]chan struct{}, len(reqs))
		obs[ci] = make([]seen, len(reqs))
		for k, q := range reqs {
			entered[ci][k] = make(chan struct{})
			posOf[q.MsgID] = [2]int{ci, k}
			total++
			if q.WaitC >= 0 {
				edges++
			}
		}
	}
	var mu sync.Mutex
	var wgEntered sync.WaitGroup
	wgEntered.Add(total)
	dup := ""
	starved := 0
	release := make(chan struct{}) // closed when the verdict is in: frees every waiter
	h := func(w *gldap.ResponseWriter, r *gldap.Request) {
		kind, id, _ := gldap.VerifMessageInfo(r)
		p, ok := posOf[id]
		if !ok {
			return
		}
		ci, k := p[0], p[1]
		mu.Lock()
		if obs[ci][k].reqID != 0 {
			dup = fmt.Sprintf("request conn=%d pos=%d dispatched twice", ci, k)
			mu.Unlock()
			return
		}
		obs[ci][k] = seen{r.ConnectionID(), r.ID}
		mu.Unlock()
		close(entered[ci][k])
		wgEntered.Done()
		q := c.Conns[ci][k]
		if q.WaitC >= 0 && q.WaitC < len(entered) && q.WaitPos < len(entered[q.WaitC]) {
			select {
			case <-entered[q.WaitC][q.WaitPos]:
			case <-release:
				mu.Lock()
				starved++
				mu.Unlock()
			}
		}
		_ = w.Write(r.NewResponse(gldap.WithApplicationCode(respTagOfOp[kind]), gldap.WithResponseCode(0)))
	}
	mux, _ := gldap.NewMux()
	_ = mux.DefaultRoute(h)
	var pki *lab.PKI
	if c.StartTLS {
		var perr error
		if pki, _, perr = lab.SharedPKI(); perr != nil {
			st.Inconclusive(perr.Error())
			return nil
		}
		_ = mux.ExtendedOperation(lab.StartTLSHandler(pki.ServerTLS()), gldap.ExtendedOperationStartTLS)
	}
	srv, err := lab.StartServer(mux, lab.ServerOpts{})
	if err != nil {
		st.Inconclusive(err.Error())
		return nil
	}
	clients := make([]*lab.Client, len(c.Conns))
	defer func() {
		for _, cl := range clients {
			if cl != nil {
				cl.Close()
			}
		}
		_ = srv.Stop(15 * time.Second)
	}()
	for ci, reqs := range c.Conns {
		var cl *lab.Client
		var err error
		if c.StartTLS && ci == 0 {
			cl, err = lab.Connect(srv.Addr, "starttls", pki.ClientTLS(false))
		} else {
			cl, err = lab.Dial(srv.Addr)
		}
		if err != nil {
			close(release)
			if c.StartTLS && ci == 0 {
				return lab.Failf("connect:starttls", "cannot upgrade a fresh connection with StartTLS: %v", err)
			}
			st.Inconclusive(err.Error())
			return nil
		}
		clients[ci] = cl
		if c.Drip && ci == 0 {
			go func(cl *lab.Client, reqs []c06Req) {
				for k, q := range reqs {
					if cl.Send(c06ReqSpec(q).Bytes()) != nil {
						return
					}
					select {
					case <-entered[0][k]:
					case <-release:
						return
					}
				}
			}(cl, reqs)
			continue
		}
		var buf []byte
		for _, q := range reqs {
			buf = append(buf, c06ReqSpec(q).Bytes()...)
		}
		go func(cl *lab.Client, buf []byte) { _ = cl.Send(buf) }(cl, buf)
	}
	st.Case(total >= 2 && edges >= 1, lab.JSONKey(c), fmt.Sprintf("conns=%d", len(c.Conns)), fmt.Sprintf("requests<=%d", bucket(total)), fmt.Sprintf("edges>0=%v", edges > 0), fmt.Sprintf("drip=%v", c.Drip), fmt.Sprintf("longest>=129:%v", longest(c) >= 129))
	if st.WantSample() {
		st.Sample(map[string]interface{}{"conns": len(c.Conns), "requests": total, "blocking_edges": edges, "first_conn": c.Conns[0][:min(len(c.Conns[0]), 6)]})
	}
	allIn := make(chan struct{})
	go func() { wgEntered.Wait(); close(allIn) }()
	select {
	case <-allIn:
	case <-time.After(15 * time.Second):
		stable, dump := lab.StableCensus(500 * time.Millisecond)
		mu.Lock()
		missing := 0
		for ci := range obs {
			for k := range obs[ci] {
				if obs[ci][k].reqID == 0 {
					missing++
				}
			}
		}
		d := dup
		mu.Unlock()
		close(release)
		if d != "" {
			return lab.Failf("dispatched-twice", "%s", d)
		}
		if !stable {
			st.Inconclusive(fmt.Sprintf("%d of %d handlers not entered after 15 s but the goroutine census is not stable", missing, total))
			return nil
		}
		return lab.Failf("not-dispatched-concurrently", "%d of %d handlers were never entered although every blocked handler only waits for a LATER request to start; stable goroutine census:\n%s", missing, total, lab.Describe(dump, 12))
	}
	close(release)
	// all responses arrive
	for ci, cl := range clients {
		for range c.Conns[ci] {
			if _, err := cl.Next(15 * time.Second); err != nil {
				return lab.Failf("response-missing", "connection %d: %v", ci, err)
			}
		}
	}
	mu.Lock()
	defer mu.Unlock()
	if dup != "" {
		return lab.Failf("dispatched-twice", "%s", dup)
	}
	connIDs := map[int]int{}
	for ci := range obs {
		for k, o := range obs[ci] {
			want := k + 1
			if c.StartTLS && ci == 0 {
				want++ // the StartTLS request was number 1
			}
			if o.reqID != want {
				return lab.Failf("request-id-order", "connection %d (upgraded by StartTLS first: %v): the request sent %d-th carries Request.ID %d (message ID %d)", ci, c.StartTLS && ci == 0, want, o.reqID, c.Conns[ci][k].MsgID)
			}
			if o.connID != obs[ci][0].connID {
				return lab.Failf("connection-id-unstable", "connection %d: requests report ConnectionID %d and %d", ci, obs[ci][0].connID, o.connID)
			}
		}
		if prev, ok := connIDs[obs[ci][0].connID]; ok {
			return lab.Failf("connection-id-shared", "connections %d and %d share ConnectionID %d", prev, ci, obs[ci][0].connID)
		}
		connIDs[obs[ci][0].connID] = ci
	}
	return nil
}

func TestC06(t *testing.T) {
	lab.Prop[c06Case]{
		ID: "C06", Part: "pipelines",
		Rule: "rapid: 1..8 simultaneous connections, each pipelining 1..24 (occasionally 64..256; 'deep-chain' cases 100..256) requests of mixed operations with shuffled message IDs, in one write or drip-fed one write per request after the previous handler has entered; a generated dependency graph makes handlers block until a LATER request of the same connection (random, the fully reversed chain, or all waiting for the last one - up to 255 handlers of one connection blocked at once) or any request of another connection has ENTERED its handler; connection 0 may have been upgraded by StartTLS before its pipeline (the numbering then continues with 2); oracle = every handler enters (a correct dispatcher always completes, a serial one deadlocks: verdict only with a stable goroutine census after 15 s), Request.ID of the k-th request sent is k, one ConnectionID per connection, distinct across connections; non-trivial = >= 2 requests and >= 1 blocking edge; distinct by hash of the case",
		Gen:  genC06, Exec: c06Exec,
	}.Run(t)
}
