package props

import (
	"bytes"
	"encoding/hex"
	"fmt"
	"github.com/hashicorp/go-hclog"
	"io"
	"strings"
	"testing"
	"time"

	ber "github.com/go-asn1-ber/asn1-ber"
	"github.com/jimlambrt/gldap"
	"pgregory.net/rapid"

	"verifharness/lab"
	"verifharness/wire"
)

// canonicalRequests: each operation x {no control, each control kind and its variants}.
func canonicalRequests() []ReqSpec {
	filter, _ := compileFilter("(&(objectClass=person)(|(cn=al*ce)(uid>=5))(!(mail=*)))")
	base := []ReqSpec{
		{Req: wire.Req{Kind: "bind", MsgID: 1, Version: 3, DN: []byte("cn=alice,dc=example,dc=org"), Password: []byte("secret")}},
		{Req: wire.Req{Kind: "search", MsgID: 2, DN: []byte("ou=people,dc=example,dc=org"), Scope: 2, Deref: 3, SizeLimit: 100, TimeLimit: 30, TypesOnly: true, Filter: filter, Attrs: [][]byte{[]byte("cn"), []byte("mail")}}},
		{Req: wire.Req{Kind: "modify", MsgID: 3, DN: []byte("cn=bob,dc=example,dc=org"), Changes: []wire.Change{
			{Op: 0, Type: []byte("mail"), Vals: [][]byte{[]byte("a@b"), []byte("c@d")}},
			{Op: 1, Type: []byte("description")},
			{Op: 2, Type: []byte("sn"), Vals: [][]byte{[]byte("x")}}}}},
		{Req: wire.Req{Kind: "add", MsgID: 4, DN: []byte("cn=eve,dc=example,dc=org"), AddAttrs: []wire.Attr{
			{Type: []byte("objectClass"), Vals: [][]byte{[]byte("top"), []byte("person")}}, {Type: []byte("cn"), Vals: [][]byte{[]byte("eve")}}}}},
		{Req: wire.Req{Kind: "delete", MsgID: 5, DN: []byte("cn=eve,dc=example,dc=org")}},
		{Req: wire.Req{Kind: "extended", MsgID: 6, ExtName: []byte("1.3.6.1.4.1.4203.1.11.3")}},
		{Req: wire.Req{Kind: "extended", MsgID: 7, ExtName: []byte(wire.OIDStartTLS), HasExtValue: true, ExtValue: []byte("v")}},
		{Req: wire.Req{Kind: "unbind", MsgID: 8}},
		// a SASL bind: not supported by gldap, but a legitimate thing for a client to send
		{Req: wire.Req{Kind: "bind", MsgID: 9, Version: 3, DN: []byte("cn=alice"), Password: []byte("secret"), SASL: true}},
	}
	ctls := []CtlSpec{
		{Kind: "paging", Size: 5, Cookie: []byte("ck")}, {Kind: "paging", Size: 70000, Crit: true}, {Kind: "paging", NoValue: true},
		{Kind: "behera_none"}, {Kind: "behera_grace", N: 17}, {Kind: "behera_expire", N: 86400}, {Kind: "behera_error", N: 1},
		{Kind: "vchu_must"}, {Kind: "vchu_warn", N: 3600}, {Kind: "vchu_warn", NoValue: true},
		{Kind: "managedsait"}, {Kind: "managedsait", Crit: true}, {Kind: "ms_notify"}, {Kind: "ms_showdel"}, {Kind: "ms_ttl"},
		{Kind: "generic", OID: "1.2.3.4"}, {Kind: "generic", OID: "1.2.3.4", Crit: true, HasValue: true, Value: []byte("val")},
		{Kind: "generic", OID: "1.2.3.4", HasValue: true, Value: []byte{0x30, 0x03, 0x02, 0x01, 0x01}},
	}
	out := append([]ReqSpec{}, base...)
	for _, b := range base {
		if b.Kind == "extended" || b.Kind == "unbind" {
			// controls are still legal on the wire for these
			c := b
			c.Ctls = []CtlSpec{ctls[0]}
			out = append(out, c)
			continue
		}
		for _, c := range ctls {
			x := b
			x.Ctls = []CtlSpec{c}
			out = append(out, x)
		}
		x := b
		x.Ctls = []CtlSpec{ctls[0], ctls[4], ctls[16]}
		out = append(out, x)
	}
	return out
}

func (r ReqSpec) Tree() *wire.Node {
	q := r.Req
	q.Controls = specsToWire(r.Ctls)
	return wire.ExposeInner(q.Node())
}

// touch exercises the public getters of a decoded request.
func touch(r *gldap.Request) {
	_ = r.ConnectionID()
	if m, err := r.GetSimpleBindMessage(); err == nil {
		_ = m.GetID()
	}
	if m, err := r.GetSearchMessage(); err == nil {
		_ = m.GetID()
	}
	if m, err := r.GetModifyMessage(); err == nil {
		for _, c := range m.Changes {
			_, _ = gldap.ConvertString(c.Modification.Vals...)
		}
	}
	_, _ = r.GetAddMessage()
	_, _ = r.GetDeleteMessage()
	_, _ = r.GetUnbindMessage()
}

// decodeNoPanic runs the stream through the server's own decode path.
func decodeNoPanic(stream []byte) (decoded int, fail *lab.Fail) {
	site, val, _ := guard(func() { decoded, _ = gldap.VerifDecodeStream(stream, touch) })
	if val != nil {
		return decoded, lab.Failf("panic:"+site+":"+panicClass(val), "decoding %s panicked: %v", hexTrunc(stream), val)
	}
	return decoded, nil
}

// c02DebugLogger: a logger at debug level that discards its output; the read path dumps every packet it has
// read when its logger is at that level.
var c02DebugLogger = hclog.New(&hclog.LoggerOptions{Name: "c02", Level: hclog.Debug, Output: io.Discard})

// decodeNoPanicDebug is decodeNoPanic through the same hook with the connection's logger at debug level.
func decodeNoPanicDebug(stream []byte) *lab.Fail {
	site, val, _ := guard(func() { _, _ = gldap.VerifDecodeStreamLogged(stream, c02DebugLogger, touch) })
	if val != nil {
		return lab.Failf("panic@debug:"+site+":"+panicClass(val), "decoding %s with the connection's logger at DEBUG level panicked: %v", hexTrunc(stream), val)
	}
	return nil
}

func hexTrunc(b []byte) string {
	if len(b) > 200 {
		return hex.EncodeToString(b[:200]) + fmt.Sprintf("…(%d bytes)", len(b))
	}
	return hex.EncodeToString(b)
}

type c02MutCase struct {
	Canon int             `json:"canon"`
	Muts  []wire.Mutation `json:"muts"`
	Hex   string          `json:"hex,omitempty"`
}

func berParses(b []byte) bool {
	ok := false
	func() {
		defer func() { _ = recover() }()
		_, err := ber.DecodePacketErr(b)
		ok = err == nil
	}()
	return ok
}

func c02Exec(canon []ReqSpec, trees []*wire.Node, canonBytes [][]byte) func(c c02MutCase, st *lab.Stats) *lab.Fail {
	return func(c c02MutCase, st *lab.Stats) *lab.Fail {
		if len(c.Muts) == 0 && c.Hex != "" && !strings.Contains(c.Hex, "…") {
			// a prefix case: the stream itself is the case
			b, err := hex.DecodeString(c.Hex)
			if err != nil {
				return nil
			}
			_, fail := decodeNoPanic(b)
			if fail == nil {
				fail = decodeNoPanicDebug(b)
			}
			return fail
		}
		if c.Canon < 0 || c.Canon >= len(trees) {
			return nil
		}
		t := trees[c.Canon]
		for _, m := range c.Muts {
			t = wire.Apply(t, m)
			if t == nil {
				st.Class("inapplicable")
				return nil
			}
		}
		b := t.Bytes()
		if len(b) > 64<<10 {
			return nil
		}
		nontrivial := !bytes.Equal(b, canonBytes[c.Canon]) && berParses(b)
		cls := []string{"op=" + canon[c.Canon].Kind, fmt.Sprintf("points=%d", len(c.Muts))}
		if len(canon[c.Canon].Ctls) > 0 {
			cls = append(cls, "ctl="+canon[c.Canon].Ctls[0].Kind)
		}
		for _, m := range c.Muts {
			cls = append(cls, "mut="+m.Op)
		}
		if !nontrivial {
			cls = append(cls, "died-in-asn1-ber-or-identical")
		}
		n, fail := decodeNoPanic(b)
		if n > 0 {
			cls = append(cls, "still-decoded")
		}
		if fail == nil && len(c.Muts) <= 1 {
			// the complete single-point set (and the canonical requests) once more with the logger at debug level
			fail = decodeNoPanicDebug(b)
			cls = append(cls, "also-at-debug-level")
		}
		st.Case(nontrivial, b, cls...)
		if st.WantSample() && len(c.Muts) > 0 {
			c.Hex = hexTrunc(b)
			st.Sample(c)
		}
		return fail
	}
}

func c02Setup() ([]ReqSpec, []*wire.Node, [][]byte) {
	canon := canonicalRequests()
	var trees []*wire.Node
	var cb [][]byte
	for _, c := range canon {
		t := c.Tree()
		trees = append(trees, t)
		cb = append(cb, t.Bytes())
	}
	return canon, trees, cb
}

// TestC02Mutants: the complete set of single-point mutants of every canonical
// request (both tiers) and the double-point set (thorough) through the hook.
func TestC02Mutants(t *testing.T) {
	if testing.Short() {
		t.Skip()
	}
	lab.SkipIfReplayOther(t, "mutants")
	st := lab.GetStats("C02", "mutants")
	st.SetRule("exhaustive: every proper prefix of every canonical stream and of a TLS ClientHello / HTTP request; every single-point shape/type mutation (replace by each of 46 alien node kinds, delete, duplicate, swap, truncate/extend child lists to every length, corrupt length octets, flip class/constructed/tag, corrupt primitive content) of every canonical request (each operation x each control kind, control values opened up and mutated inside); thorough adds every double-point mutant (second point from the reduced operator set); prefixes and single-point mutants are decoded a second time with the connection's logger at debug level (the read path dumps packets only then); non-trivial = bytes differ from the canonical request AND asn1-ber parses the frame (gldap's own code is reached); distinct by hash of the bytes")
	defer st.Flush()
	canon, trees, cb := c02Setup()
	exec := c02Exec(canon, trees, cb)
	if lab.ReplayInto(t, st, "mutants", exec) {
		return
	}
	shard, nsh := lab.Shard()
	k := 0
	report := func(c c02MutCase, f *lab.Fail) bool {
		if f == nil {
			return false
		}
		if st.Report(f, c) {
			return false
		}
		return true
	}
	failed := map[string]bool{}
	for ci := range trees {
		// every proper prefix of the canonical stream (a client that goes away mid-frame)
		for l := 0; l < len(cb[ci]); l++ {
			k++
			if k%nsh != shard {
				continue
			}
			_, f := decodeNoPanic(cb[ci][:l])
			st.Case(l >= 2, cb[ci][:l], "prefix")
			if f != nil && !failed[f.Fingerprint] {
				if report(c02MutCase{Canon: ci, Hex: hexTrunc(cb[ci][:l])}, f) {
					failed[f.Fingerprint] = true
				}
			}
		}
		// sanity: the canonical request itself decodes (the SASL bind is rejected, without panic)
		if canon[ci].SASL {
			if _, f := decodeNoPanic(cb[ci]); f != nil && report(c02MutCase{Canon: ci}, f) {
				failed[f.Fingerprint] = true
			}
		} else if n, f := decodeNoPanic(cb[ci]); f != nil || n != 1 {
			if f == nil {
				f = lab.Failf("canonical-not-decoded", "canonical request %d (%s) was not decoded", ci, canon[ci].Kind)
			}
			if report(c02MutCase{Canon: ci}, f) {
				failed[f.Fingerprint] = true
			}
		}
		singles := wire.Enumerate(trees[ci], true)
		for _, m := range singles {
			k++
			if k%nsh != shard {
				continue
			}
			c := c02MutCase{Canon: ci, Muts: []wire.Mutation{m}}
			if f := exec(c, st); f != nil && !failed[f.Fingerprint] {
				if report(c, f) {
					failed[f.Fingerprint] = true
				}
			}
		}
		if !lab.Thorough() {
			continue
		}
		for _, m1 := range singles {
			k++
			if k%nsh != shard {
				continue
			}
			t1 := wire.Apply(trees[ci], m1)
			if t1 == nil {
				continue
			}
			for _, m2 := range wire.Enumerate(t1, false) {
				c := c02MutCase{Canon: ci, Muts: []wire.Mutation{m1, m2}}
				if f := exec(c, st); f != nil && !failed[f.Fingerprint] {
					if report(c, f) {
						failed[f.Fingerprint] = true
					}
				}
			}
		}
	}
	// every prefix of streams that are not LDAP at all: a TLS ClientHello, an HTTP request
	for _, alien := range [][]byte{clientHello(), []byte("GET / HTTP/1.1\r\nHost: x\r\n\r\n"), {0x16, 0x03, 0x01, 0x02, 0x00, 0x01, 0x00, 0x01, 0xfc, 0x03, 0x03}} {
		for l := 0; l <= len(alien) && l < 600; l++ {
			_, f := decodeNoPanic(alien[:l])
			st.Case(l >= 1, alien[:l], "alien-prefix")
			if f != nil && !failed[f.Fingerprint] {
				if report(c02MutCase{Canon: -1, Hex: hexTrunc(alien[:l])}, f) {
					failed[f.Fingerprint] = true
				}
			}
		}
	}
	st.SetExhaustive(true)
	if len(failed) > 0 {
		t.Fatalf("%d distinct decode panics", len(failed))
	}
}

// TestC02Trees: rapid-generated mutation chains over generated requests, and
// free-form BER trees under an LDAP envelope (shrinks to a few bytes).
type c02TreeCase struct {
	Req      ReqSpec         `json:"req"`
	Muts     []wire.Mutation `json:"muts"`
	Trailing []byte          `json:"trailing,omitempty"`
	Hex      string          `json:"hex,omitempty"`
}

func genMutation() *rapid.Generator[wire.Mutation] {
	return rapid.Custom(func(t *rapid.T) wire.Mutation {
		return wire.Mutation{
			Path: rapid.SliceOfN(rapid.IntRange(0, 8), 0, 6).Draw(t, "path"),
			Op:   rapid.SampledFrom([]string{"replace", "replace", "replace", "delete", "dup", "swap", "trunc", "extend", "len", "ident", "content"}).Draw(t, "op"),
			Arg:  rapid.IntRange(0, 41).Draw(t, "arg"),
		}
	})
}

func TestC02Trees(t *testing.T) {
	lab.Prop[c02TreeCase]{
		ID: "C02", Part: "trees",
		Rule: "rapid: a generated well-formed request (any operation, 0..4 controls, arbitrary field values) followed by 1..5 random mutations at random tree paths (type confusion at any node, incl. inside control values) and optional trailing bytes; non-trivial = >= 1 applicable mutation and asn1-ber parses the frame; distinct by hash of the bytes",
		Gen: func(t *rapid.T) c02TreeCase {
			kind := rapid.SampledFrom([]string{"bind", "search", "modify", "add", "delete", "extended", "unbind"}).Draw(t, "kind")
			c := c02TreeCase{Req: genReq(kind, false).Draw(t, "req")}
			c.Req.MsgID = genMsgID().Draw(t, "msgid")
			if kind == "extended" || kind == "unbind" {
				if rapid.Bool().Draw(t, "ctlonext") {
					c.Req.Ctls = rapid.SliceOfN(genCtl(), 1, 2).Draw(t, "ctls")
				}
			}
			c.Muts = rapid.SliceOfN(genMutation(), 1, 5).Draw(t, "muts")
			if rapid.IntRange(0, 4).Draw(t, "trail") == 0 {
				c.Trailing = rapid.SliceOfN(rapid.Byte(), 1, 12).Draw(t, "trailing")
			}
			return c
		},
		Exec: func(c c02TreeCase, st *lab.Stats) *lab.Fail {
			tree := c.Req.Tree()
			applied := 0
			for _, m := range c.Muts {
				// clamp the path into the tree so that most mutations apply
				if t2 := wire.Apply(tree, clampPath(tree, m)); t2 != nil {
					tree = t2
					applied++
				}
			}
			b := append(tree.Bytes(), c.Trailing...)
			if len(b) > 64<<10 {
				return nil
			}
			nt := applied > 0 && berParses(b)
			_, fail := decodeNoPanic(b)
			st.Case(nt, b, "op="+c.Req.Kind, fmt.Sprintf("applied=%d", applied), fmt.Sprintf("ctls=%d", len(c.Req.Ctls)))
			if st.WantSample() {
				c.Hex = hexTrunc(b)
				st.Sample(c)
			}
			return fail
		},
	}.Run(t)
}

func clampPath(root *wire.Node, m wire.Mutation) wire.Mutation {
	n := root
	var p []int
	for _, i := range m.Path {
		var ks []*wire.Node
		if n.Constructed {
			ks = n.Children
		} else {
			ks = n.Inner
		}
		if len(ks) == 0 {
			break
		}
		i = i % len(ks)
		p = append(p, i)
		n = ks[i]
	}
	m.Path = p
	return m
}

// TestC02E2E re-confirms decode robustness end to end: mutated frames are sent
// to a live server (panic recovery on); a "Caught panic" record in the server
// log is a violation even though the server survives.
type c02E2ECase struct {
	Pre   []ReqSpec       `json:"pre"`
	Canon int             `json:"canon"`
	Muts  []wire.Mutation `json:"muts"`
	// LogLevel of the server's logger: "" (error), "debug", "trace" - gldap's request reading has
	// code that only runs when the logger is at debug level
	LogLevel string `json:"log_level,omitempty"`
}

func TestC02E2E(t *testing.T) {
	canon, trees, _ := c02Setup()
	lab.Prop[c02E2ECase]{
		ID: "C02", Part: "e2e",
		Rule: "rapid: 0..3 well-formed requests followed by a single/double-point mutant of a canonical request, sent over TCP to a live server with panic recovery ON whose logger is at error, debug or trace level (debug-only code in the read path); oracle: no 'Caught panic' record in the captured server log and the server still serves a fresh connection; non-trivial = asn1-ber parses the mutant; distinct by hash of the bytes",
		Gen: func(t *rapid.T) c02E2ECase {
			c := c02E2ECase{Canon: rapid.IntRange(0, len(trees)-1).Draw(t, "canon")}
			c.Pre = rapid.SliceOfN(genReq("", false), 0, 3).Draw(t, "pre")
			for i := range c.Pre {
				c.Pre[i].MsgID = int64(100 + i)
			}
			all := wire.Enumerate(trees[c.Canon], true)
			m1 := all[rapid.IntRange(0, len(all)-1).Draw(t, "m1")]
			c.Muts = []wire.Mutation{m1}
			if rapid.Bool().Draw(t, "double") {
				if t1 := wire.Apply(trees[c.Canon], m1); t1 != nil {
					second := wire.Enumerate(t1, false)
					if len(second) > 0 {
						c.Muts = append(c.Muts, second[rapid.IntRange(0, len(second)-1).Draw(t, "m2")])
					}
				}
			}
			c.LogLevel = rapid.SampledFrom([]string{"", "debug", "debug", "trace"}).Draw(t, "loglevel")
			return c
		},
		Exec: func(c c02E2ECase, st *lab.Stats) *lab.Fail {
			if c.Canon < 0 || c.Canon >= len(trees) {
				return nil
			}
			tree := trees[c.Canon]
			for _, m := range c.Muts {
				if tree = wire.Apply(tree, m); tree == nil {
					return nil
				}
			}
			b := tree.Bytes()
			if len(b) > 64<<10 {
				return nil
			}
			st.Case(berParses(b), append(append([]byte{}, b...), c.LogLevel...), "op="+canon[c.Canon].Kind, fmt.Sprintf("points=%d", len(c.Muts)), "loglevel="+c.LogLevel)
			st.Sample(c)
			mux, _ := gldap.NewMux()
			_ = mux.DefaultRoute(func(w *gldap.ResponseWriter, r *gldap.Request) {
				touch(r)
				_ = w.Write(r.NewResponse(gldap.WithResponseCode(0)))
			})
			closed := make(chan int, 8)
			so := lab.ServerOpts{OnClose: func(id int) { closed <- id }}
			switch c.LogLevel {
			case "debug":
				so.LogLevel = hclog.Debug
			case "trace":
				so.LogLevel = hclog.Trace
			}
			srv, err := lab.StartServer(mux, so)
			if err != nil {
				st.Inconclusive(err.Error())
				return nil
			}
			defer func() { _ = srv.Stop(10 * time.Second) }()
			cl, err := lab.Dial(srv.Addr)
			if err != nil {
				st.Inconclusive(err.Error())
				return nil
			}
			var buf []byte
			for _, p := range c.Pre {
				buf = append(buf, p.Bytes()...)
			}
			buf = append(buf, b...)
			_ = cl.Send(buf)
			// the mutant either reaches the handler (answered) or ends the
			// connection; a truncated mutant leaves the server waiting for
			// more bytes - closing our side ends that read.
			deadline := time.Now().Add(300 * time.Millisecond)
			for time.Now().Before(deadline) {
				if _, err := cl.Next(50 * time.Millisecond); err != nil && err != lab.ErrTimeout {
					break
				}
			}
			cl.Close()
			select {
			case <-closed:
			case <-time.After(10 * time.Second):
				st.Inconclusive("connection teardown not observed within 10s")
			}
			if rec, ok := srv.PanicLogged(); ok {
				return lab.Failf("e2e-panic-logged", "server log shows a recovered decode panic for %s: %s", hexTrunc(b), rec)
			}
			// the server must still serve
			c2, err := lab.Dial(srv.Addr)
			if err != nil {
				return lab.Failf("e2e-server-gone", "server no longer accepts connections after %s: %v", hexTrunc(b), err)
			}
			defer c2.Close()
			probe := ReqSpec{Req: wire.Req{Kind: "delete", MsgID: 9, DN: []byte("cn=probe")}}
			_ = c2.Send(probe.Bytes())
			if m, err := c2.Next(5 * time.Second); err != nil || m.ID != 9 {
				return lab.Failf("e2e-server-gone", "server does not answer a fresh connection after %s: %v", hexTrunc(b), err)
			}
			return nil
		},
	}.Run(t)
}
