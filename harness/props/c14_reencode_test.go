package props

import (
	"bytes"
	"fmt"
	"testing"

	"github.com/jimlambrt/gldap"
	"pgregory.net/rapid"

	"verifharness/lab"
)

// Re-encoding: a control object is a value the caller owns. A handler that keeps one control per search (a paging
// cursor is the typical case) advances it between pages - through SetCookie, by assigning the exported fields or
// by writing into the cookie's bytes - and encodes it again. Whatever the history of the object, Encode must
// describe its CURRENT fields: the bytes must equal those of a fresh control built with the same fields.

type c14Mut struct {
	How    string `json:"how"` // setcookie assign inplace size encode string-fields vchu-expire
	Size   uint32 `json:"size,omitempty"`
	Cookie []byte `json:"cookie,omitempty"`
	N      int64  `json:"n,omitempty"`
	S      string `json:"s,omitempty"`
	Crit   bool   `json:"crit,omitempty"`
}

type c14ReCase struct {
	Kind   string   `json:"kind"` // paging generic vchu_warn
	Size   uint32   `json:"size"`
	Cookie []byte   `json:"cookie"`
	Muts   []c14Mut `json:"muts"`
}

func c14ReExec(c c14ReCase, st *lab.Stats) *lab.Fail {
	st.Sample(c)
	enc := func(ctl gldap.Control) ([]byte, *lab.Fail) {
		var out []byte
		site, val, _ := guard(func() { out = ctl.Encode().Bytes() })
		if val != nil {
			return nil, lab.Failf("reencode-panic:"+site, "Encode panicked: %v", val)
		}
		return out, nil
	}
	inplace := 0
	var subject gldap.Control
	var fresh func() gldap.Control
	switch c.Kind {
	case "paging":
		p := &gldap.ControlPaging{PagingSize: c.Size, Cookie: append([]byte{}, c.Cookie...)}
		subject = p
		fresh = func() gldap.Control {
			return &gldap.ControlPaging{PagingSize: p.PagingSize, Cookie: append([]byte{}, p.Cookie...)}
		}
	case "generic":
		g := &gldap.ControlString{ControlType: "1.2.3.4", ControlValue: string(c.Cookie)}
		subject = g
		fresh = func() gldap.Control {
			return &gldap.ControlString{ControlType: g.ControlType, Criticality: g.Criticality, ControlValue: g.ControlValue}
		}
	default:
		v := &gldap.ControlVChuPasswordWarning{Expire: int64(c.Size)}
		subject = v
		fresh = func() gldap.Control { return &gldap.ControlVChuPasswordWarning{Expire: v.Expire} }
	}
	for step := -1; step < len(c.Muts); step++ {
		how := "initial"
		if step >= 0 {
			m := c.Muts[step]
			how = m.How
			switch s := subject.(type) {
			case *gldap.ControlPaging:
				switch m.How {
				case "setcookie":
					s.SetCookie(append([]byte{}, m.Cookie...))
				case "assign":
					s.Cookie = append([]byte{}, m.Cookie...)
				case "inplace":
					// the cursor lives in a buffer the handler reuses: same slice, new bytes
					for i := range s.Cookie {
						if len(m.Cookie) > 0 {
							s.Cookie[i] ^= m.Cookie[i%len(m.Cookie)] | 1
						} else {
							s.Cookie[i]++
						}
					}
					if len(s.Cookie) > 0 {
						inplace++
					}
				case "size":
					s.PagingSize = m.Size
				}
			case *gldap.ControlString:
				switch m.How {
				case "setcookie", "assign", "inplace":
					s.ControlValue = string(m.Cookie)
				case "size":
					s.Criticality = m.Crit
				default:
					s.ControlType = "1.2.3." + fmt.Sprint(m.Size%1000)
				}
			case *gldap.ControlVChuPasswordWarning:
				if m.How != "encode" {
					s.Expire = m.N
				}
			}
		}
		got, f := enc(subject)
		if f != nil {
			return f
		}
		want, f := enc(fresh())
		if f != nil {
			return f
		}
		st.Case(step >= 0, lab.JSONKey([]interface{}{c.Kind, c.Size, c.Cookie, c.Muts[:step+1]}), "kind="+c.Kind, "step="+how)
		if !bytes.Equal(got, want) {
			return lab.Failf("reencode-stale:"+c.Kind+":"+how, "%s control after %d modifications (last: %s; history %+v from size=%d cookie=%x): Encode gives %x, a fresh control with the same fields gives %x", c.Kind, step+1, how, c.Muts[:step+1], c.Size, c.Cookie, got, want)
		}
	}
	if inplace > 0 {
		st.Class("cookie-advanced-in-place")
	}
	return nil
}

func TestC14Reencode(t *testing.T) {
	lab.Prop[c14ReCase]{
		ID: "C14", Part: "reencode",
		Rule: "rapid: a paging / generic / VChu-warning control object is encoded, then modified 1..6 times (SetCookie, assigning Cookie / PagingSize / the exported fields, writing new bytes into the SAME cookie slice, or nothing at all) and encoded again after every modification; oracle (metamorphic) = the bytes equal those of a fresh control built with the object's current fields; non-trivial = an encoding that follows a modification; distinct by hash of the history",
		Gen: func(t *rapid.T) c14ReCase {
			c := c14ReCase{Kind: rapid.SampledFrom([]string{"paging", "paging", "paging", "generic", "vchu_warn"}).Draw(t, "kind"),
				Size: rapid.Uint32().Draw(t, "size"), Cookie: rapid.SliceOfN(rapid.Byte(), 0, 12).Draw(t, "cookie")}
			n := rapid.IntRange(1, 6).Draw(t, "nmut")
			for i := 0; i < n; i++ {
				c.Muts = append(c.Muts, c14Mut{How: rapid.SampledFrom([]string{"setcookie", "assign", "inplace", "inplace", "size", "encode", "other"}).Draw(t, "how"),
					Size: rapid.Uint32().Draw(t, "msize"), Cookie: rapid.SliceOfN(rapid.Byte(), 0, 12).Draw(t, "mcookie"), N: rapid.Int64().Draw(t, "mn"), Crit: rapid.Bool().Draw(t, "mcrit")})
			}
			return c
		},
		Exec: c14ReExec,
	}.Run(t)
}
