package props

import (
	"bytes"
	"fmt"
	"strconv"
	"strings"

	ber "github.com/go-asn1-ber/asn1-ber"
	"github.com/go-ldap/ldap/v3"
	"github.com/jimlambrt/gldap"
	"pgregory.net/rapid"

	"verifharness/wire"
)

// ---- byte strings ----------------------------------------------------------

var edgeBytes = [][]byte{
	{}, {0}, {0xff}, {0x04}, {0x30}, {0x04, 0x03, 'a', 'b', 'c'}, {0x04, 0x81}, {0xc3, 0x28},
	{0x80}, {0x1b, 0x02, 'h', 'i'}, []byte("cn=alice,ou=people,dc=example,dc=org"), []byte("DC=Example,DC=Org"),
	[]byte(" "), []byte("\x00\x01\x02"), []byte("é∑"), []byte("Unused"), []byte("(x=1)"), []byte("*"),
}

func genRunLen() *rapid.Generator[[]byte] {
	return rapid.Custom(func(t *rapid.T) []byte {
		n := rapid.SampledFrom([]int{126, 127, 128, 129, 255, 256, 257, 300}).Draw(t, "runlen")
		c := rapid.Byte().Draw(t, "runbyte")
		return bytes.Repeat([]byte{c}, n)
	})
}

func genHuge() *rapid.Generator[[]byte] {
	return rapid.Custom(func(t *rapid.T) []byte {
		n := rapid.SampledFrom([]int{4095, 4096, 4097, 65535, 65536, 70000}).Draw(t, "hugelen")
		c := rapid.Byte().Draw(t, "hugebyte")
		return bytes.Repeat([]byte{c}, n)
	})
}

// genBytes: arbitrary byte strings with edge values; huge ones at low weight.
func genBytes() *rapid.Generator[[]byte] {
	small := rapid.SliceOfN(rapid.Byte(), 0, 24)
	return rapid.OneOf(small, small, small, small, small, small, small, small,
		rapid.SampledFrom(edgeBytes), rapid.SampledFrom(edgeBytes), rapid.SampledFrom(edgeBytes),
		genText(), genText(), genText(), genText(),
		genRunLen(), genRunLen())
}

// genBytesBig additionally produces values beyond 4 KiB / 64 KiB.
func genBytesBig() *rapid.Generator[[]byte] {
	g := genBytes()
	return rapid.OneOf(g, g, g, g, g, g, g, g, g, g, g, g, g, g, g, g, g, g, g, genHuge())
}

func genText() *rapid.Generator[[]byte] {
	return rapid.Custom(func(t *rapid.T) []byte {
		return []byte(rapid.StringMatching(`[a-zA-Z0-9=,. ]{0,20}`).Draw(t, "text"))
	})
}

func genName() *rapid.Generator[[]byte] {
	names := [][]byte{[]byte("cn"), []byte("mail"), []byte("objectClass"), []byte("member"), []byte("userPassword"), []byte("description"), []byte("1.2.3.4"), []byte("cn;lang-en")}
	return rapid.OneOf(rapid.SampledFrom(names), rapid.SampledFrom(names), genBytes())
}

// ---- message IDs -----------------------------------------------------------

var edgeMsgIDs = []int64{0, 1, 2, 127, 128, 129, 255, 256, 32767, 32768, 65535, 65536, 8388607, 8388608, 2147483646, 2147483647}

func genMsgID() *rapid.Generator[int64] {
	return rapid.OneOf(rapid.SampledFrom(edgeMsgIDs), rapid.Int64Range(0, 2147483647), rapid.Int64Range(0, 300))
}

// distinctMsgIDs draws n pairwise different message IDs, none equal to its
// 1-based position (so that a response built from the request counter is
// caught) and none < lo.
func distinctMsgIDs(t *rapid.T, n int, lo int64) []int64 {
	used := map[int64]bool{}
	out := make([]int64, 0, n)
	for i := 0; i < n; i++ {
		id := genMsgID().Draw(t, "msgid")
		for used[id] || id == int64(i+1) || id < lo {
			id = (id + 7919) % 2147483647
			if id < lo {
				id = lo + int64(i) + 1000
			}
		}
		used[id] = true
		out = append(out, id)
	}
	return out
}

// ---- controls --------------------------------------------------------------

// CtlSpec is a typed control value (JSON friendly).
type CtlSpec struct {
	Kind     string `json:"kind"`
	Crit     bool   `json:"crit,omitempty"`
	Size     uint32 `json:"size,omitempty"`
	Cookie   []byte `json:"cookie,omitempty"`
	N        int64  `json:"n,omitempty"`
	OID      string `json:"oid,omitempty"`
	Value    []byte `json:"value,omitempty"`
	HasValue bool   `json:"has_value,omitempty"`
	// NoValue sends/creates the typed control without any value (legal: the
	// value is OPTIONAL); only for paging / behera / vchu_warn.
	NoValue bool `json:"no_value,omitempty"`
	// Zeros: vchu_warn only, independent encoder only: the decimal string carries this many leading zeros
	// ("0300" is 300: the value is a decimal string, and go-ldap reads it as such)
	Zeros int `json:"zeros,omitempty"`
}

var typedOIDs = map[string]bool{
	wire.OIDPaging: true, wire.OIDBehera: true, wire.OIDVChuMustChg: true, wire.OIDVChuWarning: true,
	wire.OIDManageDsaIT: true, wire.OIDMSNotify: true, wire.OIDMSShowDeleted: true, wire.OIDMSServerLink: true,
}

var ctlKinds = []string{"paging", "behera_none", "behera_grace", "behera_expire", "behera_error", "vchu_must", "vchu_warn", "managedsait", "ms_notify", "ms_showdel", "ms_ttl", "generic"}

func genCtl() *rapid.Generator[CtlSpec] {
	return rapid.Custom(func(t *rapid.T) CtlSpec {
		c := CtlSpec{Kind: rapid.SampledFrom(ctlKinds).Draw(t, "ctlkind")}
		switch c.Kind {
		case "paging":
			c.Size = rapid.OneOf(rapid.SampledFrom([]uint32{0, 1, 5, 127, 128, 255, 256, 65535, 65536, 2147483647, 2147483648, 4294967295}), rapid.Uint32()).Draw(t, "pagesize")
			c.Cookie = genBytes().Draw(t, "cookie")
			c.Crit = rapid.Bool().Draw(t, "crit")
		case "behera_grace", "behera_expire":
			c.N = rapid.OneOf(rapid.SampledFrom([]int64{0, 1, 17, 127, 128, 255, 256, 32767, 32768, 2147483647}), rapid.Int64Range(0, 2147483647)).Draw(t, "n")
		case "behera_error":
			c.N = rapid.Int64Range(0, 8).Draw(t, "err")
		case "vchu_warn":
			c.N = rapid.OneOf(rapid.SampledFrom([]int64{0, 1, -1, 86400, 9223372036854775807, -9223372036854775808}), rapid.Int64()).Draw(t, "expire")
			if rapid.IntRange(0, 2).Draw(t, "zeros") == 0 {
				c.Zeros = rapid.IntRange(1, 12).Draw(t, "nzeros")
			}
		case "managedsait":
			c.Crit = rapid.Bool().Draw(t, "crit")
		case "generic":
			c.OID = rapid.OneOf(
				rapid.SampledFrom([]string{"1.2.3.4", "1.3.6.1.4.1.4203.1.11.3", "2.16.840.1.113730.3.4.18", "1.2.840.113556.1.4.3190", "2.16.840.1.113730.3.4.20", "x"}),
				rapid.StringMatching(`[0-2](\.[0-9]{1,6}){1,8}`),
			).Draw(t, "oid")
			if typedOIDs[c.OID] {
				c.OID += ".1"
			}
			c.Crit = rapid.Bool().Draw(t, "crit")
			c.HasValue = rapid.Bool().Draw(t, "hasvalue")
			if c.HasValue {
				c.Value = genBytes().Draw(t, "ctlvalue")
			}
		}
		return c
	})
}

// Wire renders the control in its RFC shape with the independent encoder.
func (c CtlSpec) Wire() wire.Control {
	switch c.Kind {
	case "paging":
		if c.NoValue {
			return wire.Control{OID: wire.OIDPaging, Crit: c.Crit}
		}
		return wire.Control{OID: wire.OIDPaging, Crit: c.Crit, HasValue: true, Value: wire.PagingValue(c.Size, c.Cookie)}
	case "behera_none":
		return wire.Control{OID: wire.OIDBehera}
	case "behera_grace":
		return wire.Control{OID: wire.OIDBehera, HasValue: true, Value: wire.BeheraGraceValue(c.N)}
	case "behera_expire":
		return wire.Control{OID: wire.OIDBehera, HasValue: true, Value: wire.BeheraExpireValue(c.N)}
	case "behera_error":
		return wire.Control{OID: wire.OIDBehera, HasValue: true, Value: wire.BeheraErrorValue(c.N)}
	case "vchu_must":
		return wire.Control{OID: wire.OIDVChuMustChg, HasValue: true, Value: []byte("0")}
	case "vchu_warn":
		if c.NoValue {
			return wire.Control{OID: wire.OIDVChuWarning}
		}
		digits := strconv.FormatInt(c.N, 10)
		if c.Zeros > 0 {
			if digits[0] == '-' {
				digits = "-" + strings.Repeat("0", c.Zeros) + digits[1:]
			} else {
				digits = strings.Repeat("0", c.Zeros) + digits
			}
		}
		return wire.Control{OID: wire.OIDVChuWarning, HasValue: true, Value: []byte(digits)}
	case "managedsait":
		return wire.Control{OID: wire.OIDManageDsaIT, Crit: c.Crit}
	case "ms_notify":
		return wire.Control{OID: wire.OIDMSNotify}
	case "ms_showdel":
		return wire.Control{OID: wire.OIDMSShowDeleted}
	case "ms_ttl":
		return wire.Control{OID: wire.OIDMSServerLink}
	case "generic":
		return wire.Control{OID: c.OID, Crit: c.Crit, HasValue: c.HasValue, Value: c.Value}
	}
	panic("unknown control kind " + c.Kind)
}

// Gldap builds the control through gldap's exported constructors / struct
// literals (response direction, and "encoded by gldap's own Encode").
func (c CtlSpec) Gldap() (gldap.Control, error) {
	switch c.Kind {
	case "paging":
		p, err := gldap.NewControlPaging(c.Size)
		if err != nil {
			return nil, err
		}
		p.SetCookie(c.Cookie)
		return p, nil
	case "behera_none":
		return gldap.NewControlBeheraPasswordPolicy()
	case "behera_grace":
		return gldap.NewControlBeheraPasswordPolicy(gldap.WithGraceAuthNsRemaining(uint(c.N)))
	case "behera_expire":
		return gldap.NewControlBeheraPasswordPolicy(gldap.WithSecondsBeforeExpiration(uint(c.N)))
	case "behera_error":
		return gldap.NewControlBeheraPasswordPolicy(gldap.WithErrorCode(uint(c.N)))
	case "vchu_must":
		return &gldap.ControlVChuPasswordMustChange{MustChange: true}, nil
	case "vchu_warn":
		return &gldap.ControlVChuPasswordWarning{Expire: c.N}, nil
	case "managedsait":
		return gldap.NewControlManageDsaIT(gldap.WithCriticality(c.Crit))
	case "ms_notify":
		return gldap.NewControlMicrosoftNotification()
	case "ms_showdel":
		return gldap.NewControlMicrosoftShowDeleted()
	case "ms_ttl":
		return gldap.NewControlMicrosoftServerLinkTTL()
	case "generic":
		opts := []gldap.Option{gldap.WithCriticality(c.Crit)}
		if c.HasValue {
			opts = append(opts, gldap.WithControlValue(string(c.Value)))
		}
		return gldap.NewControlString(c.OID, opts...)
	}
	return nil, fmt.Errorf("unknown control kind %s", c.Kind)
}

// ObsCtl is the flattened view of a decoded gldap.Control taken by a handler.
type ObsCtl struct {
	GoType  string `json:"go_type"`
	OID     string `json:"oid"`
	Crit    bool   `json:"crit,omitempty"`
	Size    uint32 `json:"size,omitempty"`
	Cookie  []byte `json:"cookie,omitempty"`
	Grace   int    `json:"grace,omitempty"`
	Expire  int    `json:"expire,omitempty"`
	Err     int    `json:"err,omitempty"`
	ErrStr  string `json:"err_str,omitempty"`
	VExpire int64  `json:"vexpire,omitempty"`
	Value   string `json:"value,omitempty"`
}

func observeCtl(c gldap.Control) ObsCtl {
	o := ObsCtl{GoType: fmt.Sprintf("%T", c)}
	if c == nil {
		return o
	}
	o.OID = c.GetControlType()
	switch v := c.(type) {
	case *gldap.ControlPaging:
		o.Size = v.PagingSize
		o.Cookie = append([]byte{}, v.Cookie...)
	case *gldap.ControlBeheraPasswordPolicy:
		o.Grace = v.Grace()
		o.Expire = v.Expire()
		o.Err, o.ErrStr = v.ErrorCode()
	case *gldap.ControlVChuPasswordWarning:
		o.VExpire = v.Expire
	case *gldap.ControlManageDsaIT:
		o.Crit = v.Criticality
	case *gldap.ControlString:
		o.Crit = v.Criticality
		o.Value = v.ControlValue
	}
	return o
}

var beheraErrText = map[int]string{
	0: "Password expired", 1: "Account locked", 2: "Password must be changed",
	3: "Policy prevents password modification", 4: "Policy requires old password in order to change password",
	5: "Password fails quality checks", 6: "Password is too short for policy",
	7: "Password has been changed too recently", 8: "New password is in list of old passwords",
}

// checkCtl compares what a handler saw with what was sent (request direction).
func checkCtl(spec CtlSpec, got ObsCtl) error {
	want := map[string]string{
		"paging": "*gldap.ControlPaging", "behera_none": "*gldap.ControlBeheraPasswordPolicy",
		"behera_grace": "*gldap.ControlBeheraPasswordPolicy", "behera_expire": "*gldap.ControlBeheraPasswordPolicy",
		"behera_error": "*gldap.ControlBeheraPasswordPolicy", "vchu_must": "*gldap.ControlVChuPasswordMustChange",
		"vchu_warn": "*gldap.ControlVChuPasswordWarning", "managedsait": "*gldap.ControlManageDsaIT",
		"ms_notify": "*gldap.ControlMicrosoftNotification", "ms_showdel": "*gldap.ControlMicrosoftShowDeleted",
		"ms_ttl": "*gldap.ControlMicrosoftServerLinkTTL", "generic": "*gldap.ControlString",
	}[spec.Kind]
	if got.GoType != want {
		return fmt.Errorf("control %s decoded as %s, want %s", spec.Kind, got.GoType, want)
	}
	w := spec.Wire()
	if got.OID != w.OID {
		return fmt.Errorf("control %s: OID %q, want %q", spec.Kind, got.OID, w.OID)
	}
	switch spec.Kind {
	case "paging":
		if spec.NoValue {
			if got.Size != 0 || len(got.Cookie) != 0 {
				return fmt.Errorf("value-less paging decoded as size=%d cookie=%x", got.Size, got.Cookie)
			}
			return nil
		}
		if got.Size != spec.Size {
			return fmt.Errorf("paging size %d, want %d", got.Size, spec.Size)
		}
		if !bytes.Equal(got.Cookie, spec.Cookie) {
			return fmt.Errorf("paging cookie %x, want %x", got.Cookie, spec.Cookie)
		}
	case "behera_none":
		if got.Grace != -1 || got.Expire != -1 || got.Err != -1 || got.ErrStr != "" {
			return fmt.Errorf("value-less behera decoded as grace=%d expire=%d err=%d/%q", got.Grace, got.Expire, got.Err, got.ErrStr)
		}
	case "behera_grace":
		if int64(got.Grace) != spec.N || got.Expire != -1 || got.Err != -1 {
			return fmt.Errorf("behera grace=%d expire=%d err=%d, want grace=%d only", got.Grace, got.Expire, got.Err, spec.N)
		}
	case "behera_expire":
		if int64(got.Expire) != spec.N || got.Grace != -1 || got.Err != -1 {
			return fmt.Errorf("behera grace=%d expire=%d err=%d, want expire=%d only", got.Grace, got.Expire, got.Err, spec.N)
		}
	case "behera_error":
		if int64(got.Err) != spec.N || got.Grace != -1 || got.Expire != -1 {
			return fmt.Errorf("behera grace=%d expire=%d err=%d, want err=%d only", got.Grace, got.Expire, got.Err, spec.N)
		}
		if got.ErrStr != beheraErrText[int(spec.N)] {
			return fmt.Errorf("behera error string %q, want %q", got.ErrStr, beheraErrText[int(spec.N)])
		}
	case "vchu_warn":
		wantN := spec.N
		if spec.NoValue {
			wantN = -1
		}
		if got.VExpire != wantN {
			return fmt.Errorf("vchu warning expire %d, want %d", got.VExpire, wantN)
		}
	case "managedsait":
		if got.Crit != spec.Crit {
			return fmt.Errorf("manageDsaIT criticality %v, want %v", got.Crit, spec.Crit)
		}
	case "generic":
		if got.Crit != spec.Crit {
			return fmt.Errorf("generic control criticality %v, want %v", got.Crit, spec.Crit)
		}
		if got.Value != string(spec.Value) {
			return fmt.Errorf("generic control value %q, want %q", got.Value, spec.Value)
		}
	}
	return nil
}

func specsToWire(cs []CtlSpec) []wire.Control {
	var out []wire.Control
	for _, c := range cs {
		out = append(out, c.Wire())
	}
	return out
}

// ---- filters ---------------------------------------------------------------

func genFilterStr(depth int) *rapid.Generator[string] {
	return rapid.Custom(func(t *rapid.T) string {
		attr := rapid.SampledFrom([]string{"cn", "objectClass", "mail", "uid", "sAMAccountName", "member", "x", "o", "1.2.3", "cn;lang-en"}).Draw(t, "fattr")
		val := func(label string) string {
			parts := rapid.SliceOfN(rapid.SampledFrom([]string{"a", "b", "Z", "0", " ", "-", "=", ",", "é", "ß", "\\2a", "\\28", "\\29", "\\5c", "\\00", "\\ff", "\\c3\\a9", "alice", "example.org", "/"}), 1, 5).Draw(t, label)
			return strings.Join(parts, "")
		}
		kinds := []string{"eq", "eq", "ge", "le", "approx", "present", "sub", "sub", "ext"}
		if depth > 0 {
			kinds = append(kinds, "and", "or", "not", "and", "or")
		}
		switch rapid.SampledFrom(kinds).Draw(t, "fkind") {
		case "eq":
			return "(" + attr + "=" + val("v") + ")"
		case "ge":
			return "(" + attr + ">=" + val("v") + ")"
		case "le":
			return "(" + attr + "<=" + val("v") + ")"
		case "approx":
			return "(" + attr + "~=" + val("v") + ")"
		case "present":
			return "(" + attr + "=*)"
		case "sub":
			s := "(" + attr + "="
			if rapid.Bool().Draw(t, "hasInitial") {
				s += val("init")
			}
			s += "*"
			n := rapid.IntRange(0, 2).Draw(t, "nAny")
			for i := 0; i < n; i++ {
				s += val("any") + "*"
			}
			if rapid.Bool().Draw(t, "hasFinal") {
				s += val("final")
			}
			return s + ")"
		case "ext":
			s := "("
			hasAttr := rapid.Bool().Draw(t, "extAttr")
			if hasAttr {
				s += attr
			}
			if rapid.Bool().Draw(t, "extDN") {
				s += ":dn"
			}
			if !hasAttr || rapid.Bool().Draw(t, "extRule") {
				s += ":" + rapid.SampledFrom([]string{"caseExactMatch", "2.5.13.5", "1.2.840.113556.1.4.803"}).Draw(t, "rule")
			}
			return s + ":=" + val("v") + ")"
		case "and", "or":
			op := "&"
			if rapid.Bool().Draw(t, "isOr") {
				op = "|"
			}
			n := rapid.IntRange(1, 3).Draw(t, "nsub")
			s := "(" + op
			for i := 0; i < n; i++ {
				s += genFilterStr(depth-1).Draw(t, "sub")
			}
			return s + ")"
		case "not":
			return "(!" + genFilterStr(depth-1).Draw(t, "sub") + ")"
		}
		return "(objectClass=*)"
	})
}

// compileFilter returns the BER of a filter if go-ldap alone round-trips it
// (Compile -> Decompile -> Compile is a fixpoint), which is the property's own
// input domain.
func compileFilter(s string) ([]byte, bool) {
	p, err := ldap.CompileFilter(s)
	if err != nil {
		return nil, false
	}
	b1 := p.Bytes()
	// go through the bytes, as any server has to: go-ldap cannot decompile
	// every packet it compiles once the packet has been re-parsed (e.g.
	// extensible match with :dn), and such filters are outside the domain.
	parsed, err := ber.DecodePacketErr(b1)
	if err != nil {
		return nil, false
	}
	s2, err := ldap.DecompileFilter(parsed)
	if err != nil {
		return nil, false
	}
	p2, err := ldap.CompileFilter(s2)
	if err != nil {
		return nil, false
	}
	if !bytes.Equal(b1, p2.Bytes()) {
		return nil, false
	}
	return b1, true
}

// ---- requests --------------------------------------------------------------

// ReqSpec is one typed request of a generated case.
type ReqSpec struct {
	wire.Req
	Ctls []CtlSpec `json:"ctls,omitempty"`
	// FilterRejected notes that the generated filter was outside go-ldap's
	// round-trip domain and was replaced by (objectClass=*).
	FilterRejected bool `json:"filter_rejected,omitempty"`
}

// Bytes encodes the request with the independent encoder.
func (r ReqSpec) Bytes() []byte {
	q := r.Req
	q.Controls = specsToWire(r.Ctls)
	return q.Encode()
}

var supportedKinds = []string{"bind", "search", "modify", "add", "delete", "extended"}

func genVals(t *rapid.T, label string, big bool) [][]byte {
	g := genBytes()
	if big {
		g = genBytesBig()
	}
	return rapid.SliceOfN(g, 0, 4).Draw(t, label)
}

// genReq draws a well-formed request of the given kind ("" = any supported
// kind except unbind). Controls are drawn for kinds that carry them.
func genReq(kind string, big bool) *rapid.Generator[ReqSpec] {
	return rapid.Custom(func(t *rapid.T) ReqSpec {
		k := kind
		if k == "" {
			k = rapid.SampledFrom(supportedKinds).Draw(t, "kind")
		}
		var r ReqSpec
		r.Kind = k
		bs := genBytes()
		if big {
			bs = genBytesBig()
		}
		switch k {
		case "bind":
			r.Version = 3
			r.DN = bs.Draw(t, "binddn")
			r.Password = bs.Draw(t, "password")
		case "search":
			r.DN = bs.Draw(t, "basedn")
			r.Scope = rapid.Int64Range(0, 2).Draw(t, "scope")
			r.Deref = rapid.Int64Range(0, 3).Draw(t, "deref")
			lim := rapid.OneOf(rapid.SampledFrom([]int64{0, 1, 127, 128, 255, 256, 1000, 32767, 65536, 2147483647}), rapid.Int64Range(0, 2147483647))
			r.SizeLimit = lim.Draw(t, "size")
			r.TimeLimit = lim.Draw(t, "time")
			if r.TimeLimit == r.SizeLimit {
				r.TimeLimit = (r.SizeLimit + 1) % 2147483647
			}
			r.TypesOnly = rapid.Bool().Draw(t, "typesonly")
			fs := genFilterStr(2).Draw(t, "filter")
			fb, ok := compileFilter(fs)
			if !ok {
				r.FilterRejected = true
				fs = "(objectClass=*)"
				fb, _ = compileFilter(fs)
			}
			r.FilterStr = fs
			r.Filter = fb
			r.Attrs = rapid.SliceOfN(genName(), 0, 5).Draw(t, "attrs")
		case "modify":
			r.DN = bs.Draw(t, "moddn")
			n := rapid.IntRange(0, 4).Draw(t, "nchanges")
			for i := 0; i < n; i++ {
				r.Changes = append(r.Changes, wire.Change{
					Op:   rapid.Int64Range(0, 3).Draw(t, "chgop"),
					Type: genName().Draw(t, "chgtype"),
					Vals: genVals(t, "chgvals", big),
				})
			}
		case "add":
			r.DN = bs.Draw(t, "adddn")
			n := rapid.IntRange(0, 4).Draw(t, "nattrs")
			for i := 0; i < n; i++ {
				r.AddAttrs = append(r.AddAttrs, wire.Attr{Type: genName().Draw(t, "attrtype"), Vals: genVals(t, "attrvals", big)})
			}
		case "delete":
			r.DN = bs.Draw(t, "deldn")
		case "extended":
			r.ExtName = rapid.OneOf(
				rapid.SampledFrom([][]byte{[]byte("1.3.6.1.4.1.4203.1.11.3"), []byte("1.3.6.1.4.1.4203.1.11.1"), []byte("1.3.6.1.1.8"), []byte(wire.OIDStartTLS), []byte("Unknown"), []byte("1.3.6.1.4.1.1466.2003"), {}}),
				genText(),
			).Draw(t, "extname")
			r.HasExtValue = rapid.Bool().Draw(t, "hasextvalue")
			if r.HasExtValue {
				r.ExtValue = genBytes().Draw(t, "extvalue")
			}
		case "unbind":
			_ = rapid.Bool().Draw(t, "unbind-pad") // a Custom generator must consume data
		}
		if k != "extended" && k != "unbind" {
			if rapid.IntRange(0, 2).Draw(t, "withctl") > 0 {
				r.Ctls = rapid.SliceOfN(genCtl(), 1, 4).Draw(t, "ctls")
			}
		}
		return r
	})
}

// unsupportedReq draws a request gldap does not support: an unsupported
// protocolOp tag or a Bind whose version is not 3.
func genUnsupported() *rapid.Generator[ReqSpec] {
	return rapid.Custom(func(t *rapid.T) ReqSpec {
		var r ReqSpec
		switch rapid.SampledFrom([]string{"compare", "moddn", "abandon", "tag", "resp-as-req", "bindver", "bindver"}).Draw(t, "unsup") {
		case "compare":
			r.Kind = "raw"
			r.RawTag = wire.AppCompareRequest
			r.RawConstructed = true
			r.RawContent = append(wire.Str("cn=x").Bytes(), wire.Seq(wire.Str("cn"), wire.Str("x")).Bytes()...)
		case "moddn":
			r.Kind = "raw"
			r.RawTag = wire.AppModifyDNRequest
			r.RawConstructed = true
			r.RawContent = append(append(wire.Str("cn=x,dc=a").Bytes(), wire.Str("cn=y").Bytes()...), wire.Bool(true).Bytes()...)
		case "abandon":
			r.Kind = "raw"
			r.RawTag = wire.AppAbandonRequest
			r.RawContent = wire.IntBytes(rapid.Int64Range(0, 1000).Draw(t, "abandonid"))
		case "tag":
			r.Kind = "raw"
			r.RawTag = uint32(rapid.SampledFrom([]int{17, 18, 20, 21, 22, 26, 27, 28, 29, 30, 31, 40, 127, 128, 1000}).Draw(t, "tag"))
			r.RawConstructed = rapid.Bool().Draw(t, "tagcons")
			if r.RawConstructed {
				r.RawContent = append(wire.Str("cn=x").Bytes(), wire.Seq().Bytes()...)
			} else {
				r.RawContent = []byte("cn=x")
			}
		case "resp-as-req":
			r.Kind = "raw"
			r.RawTag = uint32(rapid.SampledFrom([]int{1, 4, 5, 7, 9, 11, 13, 15, 19, 24, 25}).Draw(t, "resptag"))
			r.RawConstructed = true
			r.RawContent = append(append(wire.Enum(0).Bytes(), wire.Str("").Bytes()...), wire.Str("").Bytes()...)
		case "bindver":
			r.Kind = "bind"
			r.Version = rapid.SampledFrom([]int64{0, 1, 2, 4, 127, 128, 255, 256, 2147483647}).Draw(t, "version")
			r.DN = []byte("cn=admin")
			r.Password = []byte("secret")
		}
		return r
	})
}
