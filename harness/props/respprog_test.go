package props

import (
	"crypto/tls"
	"fmt"
	"io"
	"runtime/debug"
	"strings"
	"time"

	"github.com/hashicorp/go-hclog"
	"github.com/jimlambrt/gldap"
	"pgregory.net/rapid"

	"verifharness/wire"
)

// OptSpec is one exported gldap option with its argument (JSON friendly).
type OptSpec struct {
	Kind  string      `json:"kind"`
	Int   int         `json:"int,omitempty"`
	Bytes []byte      `json:"bytes,omitempty"`
	Attrs []wire.Attr `json:"attrs,omitempty"`
	Bool  bool        `json:"bool,omitempty"`
}

// response-family options
var respOptKinds = []string{"code", "appcode", "diag", "matched", "attrs"}

// every other exported option ("foreign families") plus nil
var foreignOptKinds = []string{"nil", "label", "basedn", "filter", "scope", "crit", "ctlvalue", "grace", "expire", "errcode",
	"logger", "readtimeout", "writetimeout", "onclose", "tlsconfig", "disablerecovery", "writer", "desc"}

// Option converts the spec into a gldap.Option.
func (o OptSpec) Option() gldap.Option {
	switch o.Kind {
	case "code":
		return gldap.WithResponseCode(o.Int)
	case "appcode":
		return gldap.WithApplicationCode(o.Int)
	case "diag":
		return gldap.WithDiagnosticMessage(string(o.Bytes))
	case "matched":
		return gldap.WithMatchedDN(string(o.Bytes))
	case "attrs":
		if o.Bool {
			return gldap.WithAttributes(nil)
		}
		m := map[string][]string{}
		for _, a := range o.Attrs {
			vals := []string{}
			for _, v := range a.Vals {
				vals = append(vals, string(v))
			}
			m[string(a.Type)] = vals
		}
		return gldap.WithAttributes(m)
	case "nil":
		return nil
	case "label":
		return gldap.WithLabel(string(o.Bytes))
	case "basedn":
		return gldap.WithBaseDN(string(o.Bytes))
	case "filter":
		return gldap.WithFilter(string(o.Bytes))
	case "scope":
		return gldap.WithScope(gldap.Scope(o.Int))
	case "crit":
		return gldap.WithCriticality(o.Bool)
	case "ctlvalue":
		return gldap.WithControlValue(string(o.Bytes))
	case "grace":
		return gldap.WithGraceAuthNsRemaining(uint(o.Int))
	case "expire":
		return gldap.WithSecondsBeforeExpiration(uint(o.Int))
	case "errcode":
		return gldap.WithErrorCode(uint(o.Int))
	case "logger":
		if o.Bool {
			return gldap.WithLogger(nil)
		}
		return gldap.WithLogger(hclog.NewNullLogger())
	case "readtimeout":
		return gldap.WithReadTimeout(time.Duration(o.Int))
	case "writetimeout":
		return gldap.WithWriteTimeout(time.Duration(o.Int))
	case "onclose":
		if o.Bool {
			return gldap.WithOnClose(nil)
		}
		return gldap.WithOnClose(func(int) {})
	case "tlsconfig":
		if o.Bool {
			return gldap.WithTLSConfig(nil)
		}
		return gldap.WithTLSConfig(&tls.Config{})
	case "disablerecovery":
		return gldap.WithDisablePanicRecovery()
	case "writer":
		if o.Bool {
			return gldap.WithWriter(nil)
		}
		return gldap.WithWriter(io.Discard)
	case "desc":
		return gldap.WithDescription(string(o.Bytes))
	}
	panic("unknown option kind " + o.Kind)
}

func genAttrList(big bool) *rapid.Generator[[]wire.Attr] {
	return rapid.Custom(func(t *rapid.T) []wire.Attr {
		n := rapid.IntRange(0, 4).Draw(t, "nattr")
		var out []wire.Attr
		for i := 0; i < n; i++ {
			out = append(out, wire.Attr{Type: genName().Draw(t, "aname"), Vals: genVals(t, "avals", big)})
		}
		return out
	})
}

func genResultCode() *rapid.Generator[int] {
	return rapid.OneOf(rapid.SampledFrom([]int{0, 1, 32, 49, 53, 68, 80, 113, 123, 127, 128, 255, 256, 4096, 32767}), rapid.IntRange(0, 32767), rapid.IntRange(0, 130))
}

func genOpt(kinds []string, big bool) *rapid.Generator[OptSpec] {
	return rapid.Custom(func(t *rapid.T) OptSpec {
		o := OptSpec{Kind: rapid.SampledFrom(kinds).Draw(t, "optkind")}
		bs := genBytes()
		if big {
			bs = genBytesBig()
		}
		switch o.Kind {
		case "code":
			o.Int = genResultCode().Draw(t, "code")
		case "appcode":
			o.Int = rapid.IntRange(0, 30).Draw(t, "appcode")
		case "diag", "matched":
			o.Bytes = bs.Draw(t, "optbytes")
		case "label", "basedn", "filter", "ctlvalue", "desc":
			o.Bytes = genBytes().Draw(t, "optbytes")
		case "attrs":
			o.Bool = rapid.IntRange(0, 9).Draw(t, "nilattrs") == 0
			if !o.Bool {
				o.Attrs = genAttrList(big).Draw(t, "optattrs")
			}
		case "scope":
			o.Int = rapid.IntRange(-1, 4).Draw(t, "scope")
		case "grace", "expire", "errcode":
			// uint arguments: small, boundary and huge values (a negative Int wraps to >= 2^63 in uint())
			o.Int = rapid.OneOf(rapid.IntRange(0, 400), rapid.SampledFrom([]int{-1, -2, -9, -128, -9223372036854775808, 9223372036854775807, 2147483647, 2147483648, 4294967295, 4294967296, 255, 256, 65535}), rapid.Int()).Draw(t, "uintarg")
		case "readtimeout", "writetimeout":
			o.Int = rapid.IntRange(0, 1000000).Draw(t, "dur")
		case "crit", "logger", "onclose", "tlsconfig", "writer":
			o.Bool = rapid.Bool().Draw(t, "optbool")
		}
		return o
	})
}

// SetterSpec is one setter call on a response.
type SetterSpec struct {
	Kind  string    `json:"kind"` // code diag matched controls addattr name
	Int   int       `json:"int,omitempty"`
	Bytes []byte    `json:"bytes,omitempty"`
	Ctls  []CtlSpec `json:"ctls,omitempty"`
	Attr  wire.Attr `json:"attr,omitempty"`
}

// RespProg is a response program executed inside a handler.
type RespProg struct {
	Ctor    string       `json:"ctor"` // general bind searchdone entry extended modify
	EntryDN []byte       `json:"entry_dn,omitempty"`
	Opts    []OptSpec    `json:"opts,omitempty"`
	Setters []SetterSpec `json:"setters,omitempty"`
	// Phases: after the first Write the SAME response object is modified by the
	// setters of each phase and written again (one more frame per phase).
	Phases [][]SetterSpec `json:"phases,omitempty"`
}

var ctorKinds = []string{"general", "bind", "searchdone", "entry", "extended", "modify"}

// documented options per constructor (request.go doc comments)
var documentedOpts = map[string][]string{
	"general":    {"code", "appcode", "diag", "matched"},
	"bind":       {"code"},
	"searchdone": {"code"},
	"entry":      {"attrs"},
	"extended":   {"code"},
	"modify":     {"code", "diag", "matched"},
}

var settersOf = map[string][]string{
	"general":    {"code", "diag", "matched"},
	"bind":       {"code", "diag", "matched", "controls"},
	"searchdone": {"code", "diag", "matched", "controls"},
	"entry":      {"addattr", "addattr", "code", "diag", "matched"},
	"extended":   {"code", "diag", "matched", "name"},
	"modify":     {"code", "diag", "matched"},
}

// genRespProg draws a response program. foreign=false restricts options to the
// documented ones of the constructor (C04); foreign=true mixes in every
// exported option and nil (C16).
func genRespProg(foreign, big bool) *rapid.Generator[RespProg] {
	return rapid.Custom(func(t *rapid.T) RespProg {
		p := RespProg{Ctor: rapid.SampledFrom(ctorKinds).Draw(t, "ctor")}
		if p.Ctor == "entry" {
			if big {
				p.EntryDN = genBytesBig().Draw(t, "entrydn")
			} else {
				p.EntryDN = genBytes().Draw(t, "entrydn")
			}
		}
		kinds := documentedOpts[p.Ctor]
		if foreign {
			kinds = append(append(append([]string{}, respOptKinds...), respOptKinds...), foreignOptKinds...)
		}
		// every subset and order: draw 0..len+2 options with repetition
		n := rapid.IntRange(0, len(documentedOpts[p.Ctor])+2).Draw(t, "nopts")
		for i := 0; i < n; i++ {
			p.Opts = append(p.Opts, genOpt(kinds, big).Draw(t, "opt"))
		}
		ns := rapid.IntRange(0, 4).Draw(t, "nsetters")
		for i := 0; i < ns; i++ {
			s := SetterSpec{Kind: rapid.SampledFrom(settersOf[p.Ctor]).Draw(t, "setter")}
			switch s.Kind {
			case "code":
				s.Int = genResultCode().Draw(t, "scode")
				if foreign {
					s.Int = rapid.OneOf(genResultCode(), rapid.Int()).Draw(t, "scode-any")
				}
			case "diag", "matched", "name":
				if big {
					s.Bytes = genBytesBig().Draw(t, "sbytes")
				} else {
					s.Bytes = genBytes().Draw(t, "sbytes")
				}
			case "controls":
				s.Ctls = rapid.SliceOfN(genCtl(), 0, 4).Draw(t, "sctls")
			case "addattr":
				s.Attr = wire.Attr{Type: genName().Draw(t, "aname"), Vals: genVals(t, "avals", big)}
			}
			p.Setters = append(p.Setters, s)
		}
		return p
	})
}

// genSetter draws one setter call for the constructor.
func genSetter(ctor string, big bool) *rapid.Generator[SetterSpec] {
	return rapid.Custom(func(t *rapid.T) SetterSpec {
		s := SetterSpec{Kind: rapid.SampledFrom(settersOf[ctor]).Draw(t, "psetter")}
		switch s.Kind {
		case "code":
			s.Int = genResultCode().Draw(t, "pcode")
		case "diag", "matched", "name":
			if big {
				s.Bytes = genBytesBig().Draw(t, "pbytes")
			} else {
				s.Bytes = genBytes().Draw(t, "pbytes")
			}
		case "controls":
			s.Ctls = rapid.SliceOfN(genCtl(), 0, 3).Draw(t, "pctls")
		case "addattr":
			s.Attr = wire.Attr{Type: genName().Draw(t, "paname"), Vals: genVals(t, "pavals", big)}
		}
		return s
	})
}

type resultSetter interface {
	SetResultCode(int)
	SetDiagnosticMessage(string)
	SetMatchedDN(string)
}

// Build runs the program against a request and returns the response to write
// together with a function that applies further setters to the same object.
func (p RespProg) Build(r *gldap.Request) (gldap.Response, error) {
	resp, _, err := p.BuildWithApply(r)
	return resp, err
}

func (p RespProg) BuildWithApply(r *gldap.Request) (gldap.Response, func([]SetterSpec) error, error) {
	var opts []gldap.Option
	for _, o := range p.Opts {
		opts = append(opts, o.Option())
	}
	var resp gldap.Response
	var rs resultSetter
	var bind *gldap.BindResponse
	var done *gldap.SearchResponseDone
	var entry *gldap.SearchResponseEntry
	var ext *gldap.ExtendedResponse
	switch p.Ctor {
	case "general":
		x := r.NewResponse(opts...)
		resp, rs = x, x
	case "bind":
		x := r.NewBindResponse(opts...)
		resp, rs, bind = x, x, x
	case "searchdone":
		x := r.NewSearchDoneResponse(opts...)
		resp, rs, done = x, x, x
	case "entry":
		x := r.NewSearchResponseEntry(string(p.EntryDN), opts...)
		resp, rs, entry = x, x, x
	case "extended":
		x := r.NewExtendedResponse(opts...)
		resp, rs, ext = x, x, x
	case "modify":
		x := r.NewModifyResponse(opts...)
		resp, rs = x, x
	default:
		return nil, nil, fmt.Errorf("unknown ctor %s", p.Ctor)
	}
	apply := func(setters []SetterSpec) error {
		for _, s := range setters {
			switch s.Kind {
			case "code":
				rs.SetResultCode(s.Int)
			case "diag":
				rs.SetDiagnosticMessage(string(s.Bytes))
			case "matched":
				rs.SetMatchedDN(string(s.Bytes))
			case "name":
				if ext != nil {
					ext.SetResponseName(gldap.ExtendedOperationName(s.Bytes))
				}
			case "controls":
				var cs []gldap.Control
				for _, c := range s.Ctls {
					g, err := c.Gldap()
					if err != nil {
						return fmt.Errorf("control constructor: %w", err)
					}
					cs = append(cs, g)
				}
				if bind != nil {
					bind.SetControls(cs...)
				}
				if done != nil {
					done.SetControls(cs...)
				}
			case "addattr":
				if entry != nil {
					vals := []string{}
					for _, v := range s.Attr.Vals {
						vals = append(vals, string(v))
					}
					entry.AddAttribute(string(s.Attr.Type), vals)
				}
			}
		}
		return nil
	}
	if err := apply(p.Setters); err != nil {
		return nil, nil, err
	}
	return resp, apply, nil
}

// panicSite returns "function-name" of the innermost gldap frame (or the
// innermost non-runtime frame) of the current panic stack, for fingerprints.
func panicSite(stack string) string {
	lines := strings.Split(stack, "\n")
	first := ""
	for _, l := range lines {
		l = strings.TrimSpace(l)
		if strings.HasPrefix(l, "github.com/jimlambrt/gldap") {
			fn := l
			if i := strings.LastIndex(fn, "("); i > 0 {
				fn = fn[:i]
			}
			fn = strings.TrimPrefix(fn, "github.com/jimlambrt/gldap")
			fn = strings.TrimPrefix(fn, ".")
			fn = strings.TrimPrefix(fn, "/")
			return fn
		}
		if first == "" && l != "" && !strings.HasPrefix(l, "goroutine ") && !strings.HasPrefix(l, "runtime") && !strings.HasPrefix(l, "panic(") && !strings.HasPrefix(l, "/") && strings.Contains(l, "(") {
			first = l
		}
	}
	return first
}

// guard runs f and converts a panic into (site, value, stack).
func guard(f func()) (site string, val interface{}, stack string) {
	defer func() {
		if r := recover(); r != nil {
			stack = string(debug.Stack())
			site = panicSite(stack)
			val = r
		}
	}()
	f()
	return
}

func panicClass(v interface{}) string {
	s := fmt.Sprint(v)
	switch {
	case strings.Contains(s, "index out of range"):
		return "index"
	case strings.Contains(s, "slice bounds out of range"):
		return "slice-bounds"
	case strings.Contains(s, "interface conversion"):
		return "type-assertion"
	case strings.Contains(s, "nil pointer"):
		return "nil-deref"
	case strings.Contains(s, "nil map"):
		return "nil-map"
	}
	if len(s) > 40 {
		s = s[:40]
	}
	return "other:" + s
}
