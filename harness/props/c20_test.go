package props

import (
	"fmt"
	"sort"
	"strings"
	"testing"
	"time"

	"github.com/go-ldap/ldap/v3"
	"github.com/jimlambrt/gldap"
	"pgregory.net/rapid"

	"verifharness/lab"
	"verifharness/wire"
)

// DN pools: fixed width, so that no DN is a substring of another.
const (
	c20UserBase  = "ou=people,dc=example,dc=org"
	c20GroupBase = "ou=groups,dc=example,dc=org"
)

// users 0..5 have plain names; 6..9 have RDN values with non-ASCII characters, an escaped comma, other
// special characters and an upper-case attribute type (still fixed width: none is a substring of another)
var c20SpecialNames = map[int]string{6: "cn=zo\u00eb 06", 7: `cn=smith\, john 07`, 8: "cn=\u00dc#08+x=y", 9: "CN=Upper09"}

const c20NUsers = 10

const c20SID = "S-1-5-21-1004336348-1177238915-682003330-512"

func c20UserDN(i int) string {
	if n, ok := c20SpecialNames[i]; ok {
		return n + "," + c20UserBase
	}
	return fmt.Sprintf("cn=u%02d,%s", i, c20UserBase)
}
func c20GroupDN(i int) string { return fmt.Sprintf("cn=g%02d,%s", i, c20GroupBase) }

type c20Attr struct {
	Name string   `json:"name"`
	Vals []string `json:"vals"`
}

type c20Change struct {
	Op   int      `json:"op"` // 0 add-value, 1 delete-attribute, 2 replace
	Name string   `json:"name"`
	Vals []string `json:"vals"`
}

type c20Step struct {
	Kind    string      `json:"kind"` // add modify delete search setusers setgroups
	Client  int         `json:"client"`
	User    int         `json:"user"`  // index into the user pool
	Group   int         `json:"group"` // index into the group pool (delete / setgroups)
	IsGroup bool        `json:"is_group,omitempty"`
	Attrs   []c20Attr   `json:"attrs,omitempty"`
	Changes []c20Change `json:"changes,omitempty"`
	Set     []int       `json:"set,omitempty"`
	How     string      `json:"how,omitempty"` // search: dn | base
}

type c20Case struct {
	InitUsers  []int     `json:"init_users"`
	InitGroups []int     `json:"init_groups"`
	Clients    int       `json:"clients"`
	Steps      []c20Step `json:"steps"`
}

type c20Entry struct {
	attrs map[string][]string
	// untracked attributes are not compared: a replace of an attribute that
	// did not exist leaves it unspecified whether the attribute is created
	// (the statement does not say), until a delete-attribute settles it.
	untracked map[string]bool
}

type c20Model struct {
	users  map[string]*c20Entry
	groups map[string]*c20Entry
}

func c20InitialAttrs(i int) map[string][]string {
	return map[string][]string{"name": {fmt.Sprintf("u%02d", i)}, "email": {fmt.Sprintf("u%02d@example.com", i)}, "password": {"password"}}
}

func cloneAttrs(m map[string][]string) map[string][]string {
	out := map[string][]string{}
	for k, v := range m {
		out[k] = append([]string{}, v...)
	}
	return out
}

// unwrap1 strips one level of BER OCTET STRING wrapping when present.
func unwrap1(s string) string {
	n, used, err := wire.ParseOne([]byte(s))
	if err == nil && used == len(s) && n.Class == wire.Universal && !n.Constructed && (n.Tag == wire.TagOctetString || n.Tag == wire.TagGeneral) {
		return string(n.Data)
	}
	return s
}

func sameVals(got, want []string) bool {
	if len(got) != len(want) {
		return false
	}
	for i := range got {
		if got[i] != want[i] && unwrap1(got[i]) != want[i] {
			return false
		}
	}
	return true
}

func c20Exec(c c20Case, st *lab.Stats) *lab.Fail {
	h, err := sharedDir("plain")
	if err != nil {
		st.Inconclusive(err.Error())
		return nil
	}
	st.Sample(c)
	model := &c20Model{users: map[string]*c20Entry{}, groups: map[string]*c20Entry{}}
	var users, groups []*gldap.Entry
	poolUsers := map[int]bool{}
	poolGroups := map[int]bool{}
	for _, i := range c.InitUsers {
		if _, dup := model.users[c20UserDN(i)]; dup {
			continue
		}
		users = append(users, gldap.NewEntry(c20UserDN(i), c20InitialAttrs(i)))
		model.users[c20UserDN(i)] = &c20Entry{attrs: c20InitialAttrs(i)}
	}
	for _, i := range c.InitGroups {
		if _, dup := model.groups[c20GroupDN(i)]; dup {
			continue
		}
		groups = append(groups, gldap.NewEntry(c20GroupDN(i), map[string][]string{"member": {c20UserDN(i)}}))
		model.groups[c20GroupDN(i)] = &c20Entry{attrs: map[string][]string{"member": {c20UserDN(i)}}}
	}
	h.D.SetUsers(users...)
	h.D.SetGroups(groups...)
	h.D.SetTokenGroups(nil)
	h.D.SetControls()
	for i := 0; i < 6; i++ {
		poolGroups[i] = true
	}
	for i := 0; i < c20NUsers; i++ {
		poolUsers[i] = true
	}
	nc := c.Clients
	if nc < 1 {
		nc = 1
	}
	conns := make([]*ldap.Conn, nc)
	for i := range conns {
		cn, err := h.dial("plain")
		if err != nil {
			st.Inconclusive(err.Error())
			return nil
		}
		cn.SetTimeout(10 * time.Second)
		conns[i] = cn
		defer cn.Close()
	}
	codeOf := func(err error) (int, bool) {
		if err == nil {
			return 0, true
		}
		if le, ok := err.(*ldap.Error); ok && le.ResultCode < 200 {
			return int(le.ResultCode), true
		}
		return -1, false
	}
	// searchDN looks an entry up the way the repository's tests do.
	searchDN := func(cn *ldap.Conn, dn string) ([]*ldap.Entry, int, error) {
		filter := fmt.Sprintf("(%s)", dn)
		if _, err := ldap.CompileFilter(filter); err != nil || !isASCII(dn) {
			// a DN that is not itself a well-formed filter item (escaped comma) or not ASCII: look it up by base DN alone
			filter = "(objectClass=*)"
		}
		res, err := cn.Search(&ldap.SearchRequest{BaseDN: dn, Scope: ldap.ScopeWholeSubtree, Filter: filter})
		code, ok := codeOf(err)
		if !ok {
			return nil, -1, err
		}
		if res == nil {
			return nil, code, nil
		}
		return res.Entries, code, nil
	}
	checkAll := func(step int, mutated string) *lab.Fail {
		cn := conns[step%len(conns)]
		var dns []string
		for i := range poolUsers {
			dns = append(dns, c20UserDN(i))
		}
		for i := range poolGroups {
			dns = append(dns, c20GroupDN(i))
		}
		sort.Strings(dns)
		for _, dn := range dns {
			want := model.users[dn]
			if want == nil {
				want = model.groups[dn]
			}
			entries, code, err := searchDN(cn, dn)
			if err != nil {
				return lab.Failf("search-no-answer", "step %d: search for %s failed without an LDAP result: %v", step, dn, err)
			}
			nt := dn == mutated
			st.Case(nt, lab.JSONKey([]interface{}{c.Steps[:min(step+1, len(c.Steps))], dn}), "check-search", fmt.Sprintf("present=%v", want != nil))
			if want == nil {
				if len(entries) != 0 {
					return lab.Failf("ghost-entry", "step %d: %s is found by a search (%d entries) but the model says it does not exist (deleted or never added)", step, dn, len(entries))
				}
				continue
			}
			if len(entries) != 1 || code != 0 {
				return lab.Failf("entry-not-found", "step %d: search for existing entry %s returned %d entries, result %d", step, dn, len(entries), code)
			}
			e := entries[0]
			if e.DN != dn {
				return lab.Failf("entry-wrong-dn", "step %d: search for %s returned %s", step, dn, e.DN)
			}
			got := map[string][]string{}
			for _, a := range e.Attributes {
				if _, dup := got[a.Name]; dup {
					return lab.Failf("attr-duplicate", "step %d: entry %s has attribute %q twice", step, dn, a.Name)
				}
				got[a.Name] = a.Values
			}
			for name, wv := range want.attrs {
				if want.untracked[name] {
					continue
				}
				gv, ok := got[name]
				if !ok || !sameVals(gv, wv) {
					return lab.Failf("attr-mismatch", "step %d: entry %s attribute %q is %q (present=%v), the model says %q", step, dn, name, gv, ok, wv)
				}
			}
			for name, gv := range got {
				if _, ok := want.attrs[name]; ok || want.untracked[name] {
					continue
				}
				return lab.Failf("attr-unexpected", "step %d: entry %s has attribute %q=%q which the model does not have", step, dn, name, gv)
			}
		}
		return nil
	}
	if f := checkAll(0, ""); f != nil {
		return f
	}
	tokenGroupsSet := false
	for si, s := range c.Steps {
		cn := conns[s.Client%len(conns)]
		mutated := ""
		st.Class("step=" + s.Kind)
		switch s.Kind {
		case "add":
			dn := c20UserDN(s.User)
			ar := ldap.NewAddRequest(dn, nil)
			attrs := map[string][]string{}
			for _, a := range s.Attrs {
				ar.Attribute(a.Name, a.Vals)
				attrs[a.Name] = append([]string{}, a.Vals...)
			}
			code, ok := codeOf(cn.Add(ar))
			if !ok {
				return lab.Failf("add-no-answer", "step %d: add %s got no LDAP result", si, dn)
			}
			if _, exists := model.users[dn]; exists {
				st.Class("add-existing")
				if code != 68 {
					return lab.Failf("add-existing-code", "step %d: adding the existing user %s returned %d, want entryAlreadyExists (68)", si, dn, code)
				}
			} else {
				if code != 0 {
					return lab.Failf("add-refused", "step %d: adding the new user %s returned %d", si, dn, code)
				}
				model.users[dn] = &c20Entry{attrs: attrs}
			}
			mutated = dn
		case "delete":
			dn := c20UserDN(s.User)
			tbl := model.users
			if s.IsGroup {
				dn = c20GroupDN(s.Group)
				tbl = model.groups
			}
			code, ok := codeOf(cn.Del(ldap.NewDelRequest(dn, nil)))
			if !ok {
				return lab.Failf("delete-no-answer", "step %d: delete %s got no LDAP result", si, dn)
			}
			if _, exists := tbl[dn]; exists {
				if code != 0 {
					return lab.Failf("delete-refused", "step %d: deleting the existing entry %s returned %d", si, dn, code)
				}
				delete(tbl, dn)
			} else {
				st.Class("delete-missing")
				if code != 32 {
					return lab.Failf("delete-missing-code", "step %d: deleting the missing entry %s returned %d, want noSuchObject (32)", si, dn, code)
				}
			}
			mutated = dn
		case "modify":
			dn := c20UserDN(s.User)
			mr := ldap.NewModifyRequest(dn, nil)
			for _, ch := range s.Changes {
				switch ch.Op {
				case 0:
					mr.Add(ch.Name, ch.Vals)
				case 1:
					mr.Delete(ch.Name, nil)
				case 2:
					mr.Replace(ch.Name, ch.Vals)
				}
			}
			code, ok := codeOf(cn.Modify(mr))
			if !ok {
				return lab.Failf("modify-no-answer", "step %d: modify %s got no LDAP result", si, dn)
			}
			e, exists := model.users[dn]
			if !exists {
				st.Class("modify-missing")
				if code != 32 {
					return lab.Failf("modify-missing-code", "step %d: modifying the missing entry %s returned %d, want noSuchObject (32)", si, dn, code)
				}
				break
			}
			if code != 0 {
				return lab.Failf("modify-refused", "step %d: modifying the existing user %s returned %d", si, dn, code)
			}
			for _, ch := range s.Changes {
				st.Class(fmt.Sprintf("modify-op=%d", ch.Op))
				switch ch.Op {
				case 0:
					if !e.untracked[ch.Name] {
						e.attrs[ch.Name] = append(e.attrs[ch.Name], ch.Vals...)
					}
				case 1:
					delete(e.attrs, ch.Name)
					delete(e.untracked, ch.Name)
				case 2:
					if _, has := e.attrs[ch.Name]; has && !e.untracked[ch.Name] {
						e.attrs[ch.Name] = append([]string{}, ch.Vals...)
					} else {
						if e.untracked == nil {
							e.untracked = map[string]bool{}
						}
						e.untracked[ch.Name] = true
						st.Class("replace-of-missing-attribute(untracked)")
					}
				}
			}
			mutated = dn
		case "setusers":
			var es []*gldap.Entry
			model.users = map[string]*c20Entry{}
			for _, i := range s.Set {
				if _, dup := model.users[c20UserDN(i)]; dup {
					continue
				}
				es = append(es, gldap.NewEntry(c20UserDN(i), c20InitialAttrs(i)))
				model.users[c20UserDN(i)] = &c20Entry{attrs: c20InitialAttrs(i)}
			}
			h.D.SetUsers(es...)
		case "setgroups":
			var es []*gldap.Entry
			model.groups = map[string]*c20Entry{}
			for _, i := range s.Set {
				i = i % 6 // the group pool has 6 entries
				if _, dup := model.groups[c20GroupDN(i)]; dup {
					continue
				}
				es = append(es, gldap.NewEntry(c20GroupDN(i), map[string][]string{"member": {c20UserDN(i)}}))
				model.groups[c20GroupDN(i)] = &c20Entry{attrs: map[string][]string{"member": {c20UserDN(i)}}}
			}
			h.D.SetGroups(es...)
		case "settokengroups":
			// the remaining Set* method: token groups of one SID (an empty set clears them)
			if len(s.Set) == 0 {
				h.D.SetTokenGroups(nil)
			} else {
				var es []*gldap.Entry
				for _, i := range s.Set {
					es = append(es, gldap.NewEntry(c20GroupDN(i%6), map[string][]string{"member": {c20UserDN(i % 6)}}))
				}
				h.D.SetTokenGroups(map[string][]*gldap.Entry{c20SID: es})
			}
			tokenGroupsSet = len(s.Set) > 0
		case "search":
			// searches by user base / group base (the per-DN searches run after every step anyway)
			if s.How == "sid" {
				// a tokenGroups lookup: the statement says nothing about its result, only that the store keeps
				// behaving - it must be answered, and everything after it is checked as usual
				st.Class(fmt.Sprintf("sid-search(tokengroups-set=%v)", tokenGroupsSet))
				_, err := cn.Search(&ldap.SearchRequest{BaseDN: "<SID=" + c20SID + ">", Scope: ldap.ScopeBaseObject, Filter: "(objectClass=*)", Attributes: []string{"tokenGroups"}})
				if _, ok := codeOf(err); !ok {
					return lab.Failf("search-no-answer", "step %d: tokenGroups search got no LDAP result: %v", si, err)
				}
			} else if s.How == "groupbase" {
				dn := c20GroupDN(s.Group)
				res, err := cn.Search(&ldap.SearchRequest{BaseDN: c20GroupBase, Scope: ldap.ScopeWholeSubtree, Filter: fmt.Sprintf("(cn=g%02d)", s.Group)})
				code, ok := codeOf(err)
				if !ok {
					return lab.Failf("search-no-answer", "step %d: group-base search got no LDAP result: %v", si, err)
				}
				n := 0
				if res != nil {
					n = len(res.Entries)
				}
				_, exists := model.groups[dn]
				if exists && (n != 1 || code != 0 || res.Entries[0].DN != dn) {
					return lab.Failf("groupbase-not-found", "step %d: group-base search (cn=g%02d) returned %d entries, result %d; the group exists", si, s.Group, n, code)
				}
				if !exists && n != 0 {
					return lab.Failf("ghost-entry", "step %d: group-base search (cn=g%02d) finds a group the model does not have", si, s.Group)
				}
			} else if _, special := c20SpecialNames[s.User]; !special {
				dn := c20UserDN(s.User)
				res, err := cn.Search(&ldap.SearchRequest{BaseDN: c20UserBase, Scope: ldap.ScopeWholeSubtree, Filter: fmt.Sprintf("(cn=u%02d)", s.User)})
				code, ok := codeOf(err)
				if !ok {
					return lab.Failf("search-no-answer", "step %d: user-base search got no LDAP result: %v", si, err)
				}
				n := 0
				if res != nil {
					n = len(res.Entries)
				}
				_, exists := model.users[dn]
				if exists && (n != 1 || code != 0 || res.Entries[0].DN != dn) {
					return lab.Failf("userbase-not-found", "step %d: user-base search (cn=u%02d) returned %d entries, result %d; the user exists", si, s.User, n, code)
				}
				if !exists && n != 0 {
					return lab.Failf("ghost-entry", "step %d: user-base search (cn=u%02d) finds a user the model does not have", si, s.User)
				}
			}
		}
		if f := checkAll(si+1, mutated); f != nil {
			return f
		}
	}
	return nil
}

func min(a, b int) int {
	if a < b {
		return a
	}
	return b
}

func TestC20(t *testing.T) {
	names := []string{"email", "description", "mail", "sn", "name", "title"}
	long := rapid.Custom(func(t *rapid.T) string {
		n := rapid.SampledFrom([]int{127, 128, 129, 200, 255, 256, 1000, 5000}).Draw(t, "longlen")
		return strings.Repeat(rapid.SampledFrom([]string{"x", "ab", "0"}).Draw(t, "longunit"), n)[:n]
	})
	short := rapid.OneOf(rapid.StringMatching(`[a-zA-Z0-9@. _-]{0,12}`), rapid.SampledFrom([]string{"", "x", "a b", "test-add-attribute", "\x04\x03abc", "é", "v1", "v2"}))
	val := rapid.OneOf(short, short, short, short, short, short, short, long)
	lab.Prop[c20Case]{
		ID: "C20", Part: "store",
		Rule: "rapid state machine: up to 30 steps of Add / Modify (add-value, delete-attribute, replace; 1..3 changes) / Delete (users and groups) / Search (user base, group base, tokenGroups by SID) / SetUsers / SetGroups / SetTokenGroups with values of 0..12 characters and occasionally 127..5000 bytes, over fixed-width DN pools (10 users - four of them with non-ASCII characters, an escaped comma, #/+/= and an upper-case attribute type in the RDN -, 6 groups, not substrings of one another), issued by 1..3 go-ldap clients one operation at a time; oracle = in-memory reference model updated in lock-step; after EVERY step every DN of the pool is searched (by entry DN, the way the repository's tests do) and compared with the model (values modulo one level of OCTET STRING wrapping); non-trivial = a search that follows a mutation of the same DN; distinct by hash of (step prefix, DN)",
		Gen: func(t *rapid.T) c20Case {
			c := c20Case{
				InitUsers:  rapid.SliceOfN(rapid.IntRange(0, c20NUsers-1), 0, 5).Draw(t, "initusers"),
				InitGroups: rapid.SliceOfN(rapid.IntRange(0, 5), 0, 3).Draw(t, "initgroups"),
				Clients:    rapid.IntRange(1, 3).Draw(t, "clients"),
			}
			n := rapid.IntRange(1, 30).Draw(t, "nsteps")
			for i := 0; i < n; i++ {
				s := c20Step{
					Kind:   rapid.SampledFrom([]string{"add", "add", "add", "modify", "modify", "modify", "modify", "delete", "delete", "delete", "search", "search", "setusers", "setgroups", "settokengroups"}).Draw(t, "kind"),
					Client: rapid.IntRange(0, 2).Draw(t, "client"),
					User:   rapid.IntRange(0, c20NUsers-1).Draw(t, "user"),
					Group:  rapid.IntRange(0, 5).Draw(t, "group"),
				}
				switch s.Kind {
				case "add":
					na := rapid.IntRange(0, 3).Draw(t, "nattrs")
					seen := map[string]bool{}
					for j := 0; j < na; j++ {
						nm := rapid.SampledFrom(names).Draw(t, "aname")
						if seen[nm] {
							continue
						}
						seen[nm] = true
						s.Attrs = append(s.Attrs, c20Attr{Name: nm, Vals: rapid.SliceOfN(val, 1, 3).Draw(t, "avals")})
					}
				case "modify":
					nch := rapid.IntRange(1, 3).Draw(t, "nchanges")
					for j := 0; j < nch; j++ {
						ch := c20Change{Op: rapid.IntRange(0, 2).Draw(t, "op"), Name: rapid.SampledFrom(names).Draw(t, "cname")}
						if ch.Op != 1 {
							ch.Vals = rapid.SliceOfN(val, 1, 3).Draw(t, "cvals")
						}
						s.Changes = append(s.Changes, ch)
					}
				case "delete":
					s.IsGroup = rapid.IntRange(0, 3).Draw(t, "isgroup") == 0
				case "search":
					s.How = rapid.SampledFrom([]string{"userbase", "groupbase", "sid"}).Draw(t, "how")
				case "setusers", "setgroups", "settokengroups":
					s.Set = rapid.SliceOfN(rapid.IntRange(0, c20NUsers-1), 0, 5).Draw(t, "set")
				}
				c.Steps = append(c.Steps, s)
			}
			return c
		},
		Exec: c20Exec,
	}.Run(t)
}

func isASCII(s string) bool {
	for i := 0; i < len(s); i++ {
		if s[i] >= 0x80 {
			return false
		}
	}
	return true
}
