package props

import (
	"fmt"
	"net"
	"runtime"
	"runtime/debug"
	"sync"
	"sync/atomic"
	"testing"
	"time"

	"github.com/hashicorp/go-hclog"
	"github.com/jimlambrt/gldap"
	"pgregory.net/rapid"

	"verifharness/lab"
)

type c12Conn struct {
	State string `json:"state"` // handler-gated handler-slow just-closed onclose-held pipelined-slow unbind-gated unbind-slow
	How   string `json:"how"`   // fin unbind rst
	K     int    `json:"k"`
	TLS   bool   `json:"tls,omitempty"` // the connection is a TLS session (scenario-wide: the server then runs with a TLS config)
}

type c12Case struct {
	Order  string    `json:"order"` // after-ready before-run concurrent-start twice-seq twice-concurrent
	Spin   int       `json:"spin"`
	Conns  []c12Conn `json:"conns"`
	HoldMs int       `json:"hold_ms"`
	// concurrent-start: Stop is called DelayUs microseconds (busy wait) after
	// Run was started; the case sweeps Rounds delays DelayUs, DelayUs+StepUs, ...
	DelayUs int `json:"delay_us,omitempty"`
	StepUs  int `json:"step_us,omitempty"`
	Rounds  int `json:"rounds,omitempty"`
	// Late: two dialers connect up to this many silent clients each WHILE Stop is being called (orders
	// with a running server only)
	Late int `json:"late,omitempty"`
}

func c12Exec(c c12Case, st *lab.Stats) *lab.Fail {
	if c.Order == "concurrent-start" && c.Rounds > 1 {
		for i := 0; i < c.Rounds; i++ {
			one := c
			one.Rounds = 1
			one.DelayUs = c.DelayUs + i*c.StepUs
			if f := c12Exec(one, st); f != nil {
				f.Message = fmt.Sprintf("round %d (Stop %d us after Run was started): %s", i, one.DelayUs, f.Message)
				return f
			}
		}
		return nil
	}
	if c.Late > 0 && c.Rounds > 1 && c.Order != "concurrent-start" {
		// a storm: the same start / connect-flood / Stop cycle many times (what matters is the instant of
		// Stop relative to the accept loop, which no single run controls)
		for i := 0; i < c.Rounds; i++ {
			one := c
			one.Rounds = 1
			one.Spin = c.Spin + i
			if f := c12Exec(one, st); f != nil {
				f.Message = fmt.Sprintf("cycle %d of %d: %s", i+1, c.Rounds, f.Message)
				return f
			}
		}
		return nil
	}
	port, err := lab.FreeLocalPort()
	if err != nil {
		st.Inconclusive(err.Error())
		return nil
	}
	addr := fmt.Sprintf("127.0.0.1:%d", port)
	g := newGate()
	defer g.open()
	var inflight, oncloseDone, oncloseStarted int64
	heldTags := map[int]bool{}
	var mu sync.Mutex
	connIDOfTag := map[int]int{}
	heldConnIDs := map[int]bool{}
	for i, cs := range c.Conns {
		if cs.State == "onclose-held" {
			heldTags[i] = true
		}
	}
	h := func(w *gldap.ResponseWriter, r *gldap.Request) {
		kind, id, _ := gldap.VerifMessageInfo(r)
		tag, n := tagOf(id), int(id%tagStride)
		mu.Lock()
		connIDOfTag[tag] = r.ConnectionID()
		if heldTags[tag] {
			heldConnIDs[r.ConnectionID()] = true
		}
		mu.Unlock()
		if kind == "unbind" {
			// the handler of the Unbind route is a handler too: it may still be running when Stop is called
			if tag < len(c.Conns) && (c.Conns[tag].State == "unbind-gated" || c.Conns[tag].State == "unbind-slow") {
				atomic.AddInt64(&inflight, 1)
				if c.Conns[tag].State == "unbind-gated" {
					g.wait(20 * time.Second)
				} else {
					time.Sleep(time.Duration(c.HoldMs) * time.Millisecond)
				}
				atomic.AddInt64(&inflight, -1)
			}
			return
		}
		if n >= 10 && tag < len(c.Conns) {
			atomic.AddInt64(&inflight, 1)
			switch c.Conns[tag].State {
			case "handler-gated":
				_ = respondOK(w, r) // answer first: the client may leave, the handler is still running
				g.wait(20 * time.Second)
			case "handler-slow", "pipelined-slow":
				_ = respondOK(w, r)
				time.Sleep(time.Duration(c.HoldMs) * time.Millisecond)
			default:
				_ = respondOK(w, r)
			}
			atomic.AddInt64(&inflight, -1)
			return
		}
		_ = respondOK(w, r)
	}
	mux, _ := gldap.NewMux()
	_ = mux.DefaultRoute(h)
	_ = mux.Unbind(h)
	s, err := gldap.NewServer(gldap.WithLogger(hclog.NewNullLogger()), gldap.WithOnClose(func(id int) {
		atomic.AddInt64(&oncloseStarted, 1)
		mu.Lock()
		held := heldConnIDs[id]
		mu.Unlock()
		if held {
			g.wait(20 * time.Second)
		}
		atomic.AddInt64(&oncloseDone, 1)
	}))
	if err != nil {
		st.Inconclusive(err.Error())
		return nil
	}
	_ = s.Router(mux)
	held := 0
	for _, cs := range c.Conns {
		if cs.State != "just-closed" {
			held++
		}
	}
	st.Case(held > 0 || c.Order == "before-run" || c.Order == "concurrent-start", lab.JSONKey(c), "order="+c.Order, fmt.Sprintf("conns=%d", len(c.Conns)), fmt.Sprintf("held=%d", min(held, 3)))
	for _, cs := range c.Conns {
		st.Class("state=" + cs.State)
	}
	st.Sample(c)
	runErr := make(chan error, 1)
	portChecks := func(runReturned bool, rerr error) *lab.Fail {
		if !runReturned {
			return lab.Failf("run-not-returned", "order=%s: Run did not return within 5 s after Stop returned", c.Order)
		}
		if rerr != nil {
			return lab.Failf("run-error-after-stop", "order=%s: Run returned %v", c.Order, rerr)
		}
		if cn, err := net.DialTimeout("tcp", addr, time.Second); err == nil {
			cn.Close()
			return lab.Failf("port-still-open", "order=%s: Stop and Run have both returned but %s still accepts connections", c.Order, addr)
		}
		l, err := net.Listen("tcp", addr)
		if err != nil {
			return lab.Failf("port-not-released", "order=%s: Stop and Run have both returned but %s cannot be bound again: %v", c.Order, addr, err)
		}
		l.Close()
		return nil
	}
	timedStop := func() (bool, error) {
		done := make(chan error, 1)
		var pan interface{}
		go func() {
			defer func() {
				if r := recover(); r != nil {
					pan = r
					done <- fmt.Errorf("panic: %v", r)
				}
			}()
			done <- s.Stop()
		}()
		select {
		case err := <-done:
			_ = pan
			return true, err
		case <-time.After(10 * time.Second):
			return false, nil
		}
	}
	waitRun := func() (bool, error) {
		select {
		case err := <-runErr:
			return true, err
		case <-time.After(5 * time.Second):
			return false, nil
		}
	}
	useTLS := false
	for _, cs := range c.Conns {
		useTLS = useTLS || cs.TLS
	}
	var runOpts []gldap.Option
	var pki *lab.PKI
	if useTLS {
		var perr error
		if pki, _, perr = lab.SharedPKI(); perr != nil {
			st.Inconclusive(perr.Error())
			return nil
		}
		runOpts = append(runOpts, gldap.WithTLSConfig(pki.ServerTLS()))
	}
	switch c.Order {
	case "before-run":
		ok, err := timedStop()
		if !ok {
			st.Inconclusive("Stop before Run did not return")
			return nil
		}
		if err != nil {
			return lab.Failf("stop-error", "Stop before Run returned %v", err)
		}
		go func() { runErr <- s.Run(addr) }()
		ret, rerr := waitRun()
		if !ret {
			// Run is serving although Stop was called before: stop it for real, then report
			_, _ = timedStop()
			return lab.Failf("run-serves-after-stop", "Stop was called before Run; Run(%s) did not return within 5 s", addr)
		}
		return portChecks(ret, rerr)
	case "concurrent-start":
		go func() { runErr <- s.Run(addr) }()
		for i := 0; i < c.Spin; i++ {
			runtime.Gosched()
		}
		for t0 := time.Now(); time.Since(t0) < time.Duration(c.DelayUs)*time.Microsecond; {
		}
		ok, err := timedStop()
		if !ok {
			st.Inconclusive("Stop concurrent with Run's start did not return")
			return nil
		}
		if err != nil {
			return lab.Failf("stop-error", "Stop concurrent with Run's start returned %v", err)
		}
		ret, rerr := waitRun()
		if !ret {
			_, _ = timedStop()
		}
		return portChecks(ret, rerr)
	}
	// serving orders
	go func() { runErr <- s.Run(addr, runOpts...) }()
	deadline := time.Now().Add(5 * time.Second)
	for !s.Ready() {
		select {
		case err := <-runErr:
			st.Inconclusive(fmt.Sprintf("Run failed: %v", err))
			return nil
		default:
		}
		if time.Now().After(deadline) {
			st.Inconclusive("server not ready")
			return nil
		}
		time.Sleep(50 * time.Microsecond)
	}
	clients := make([]*lab.Client, len(c.Conns))
	defer func() {
		for _, cl := range clients {
			if cl != nil {
				cl.Close()
			}
		}
	}()
	for tag, cs := range c.Conns {
		var cl *lab.Client
		var err error
		if useTLS {
			cl, err = lab.DialTLS(addr, pki.ClientTLS(false))
		} else {
			cl, err = lab.Dial(addr)
		}
		if err != nil {
			st.Inconclusive(err.Error())
			return nil
		}
		clients[tag] = cl
		base := int64(tag) * tagStride
		_ = cl.Send(simpleReq("bind", base+1).Bytes())
		if _, err := cl.Next(10 * time.Second); err != nil {
			st.Inconclusive("hello unanswered: " + err.Error())
			return nil
		}
		if cs.State == "pipelined-slow" {
			// requests and the Unbind leave in one write and nobody waits for the
			// answers: the connection ends while its handlers have only just been dispatched
			var buf []byte
			for j := 0; j < cs.K; j++ {
				buf = append(buf, simpleReq("search", base+10+int64(j)).Bytes()...)
			}
			buf = append(buf, simpleReq("unbind", base+99).Bytes()...)
			_ = cl.Send(buf)
			continue
		}
		if cs.State == "handler-gated" || cs.State == "handler-slow" {
			for j := 0; j < cs.K; j++ {
				_ = cl.Send(simpleReq("search", base+10+int64(j)).Bytes())
			}
			for j := 0; j < cs.K; j++ {
				if _, err := cl.Next(10 * time.Second); err != nil {
					st.Inconclusive("in-flight request unanswered: " + err.Error())
					return nil
				}
			}
		}
	}
	// every client leaves no later than Stop
	for tag, cs := range c.Conns {
		if cs.State == "pipelined-slow" {
			continue // its Unbind is already on the wire; the socket stays open until the server closes it
		}
		if cs.How == "unbind" || cs.State == "unbind-gated" || cs.State == "unbind-slow" {
			_ = clients[tag].Send(simpleReq("unbind", int64(tag)*tagStride+99).Bytes())
			if cs.State == "unbind-gated" || cs.State == "unbind-slow" {
				time.Sleep(2 * time.Millisecond) // let the Unbind be read before the socket goes away
			}
		}
		if cs.How == "rst" {
			rst(rawConn(clients[tag].C)) // the client vanishes: over TLS the server cannot even send its close_notify
			continue
		}
		_ = rawConn(clients[tag].C).Close()
	}
	accepted := int64(len(c.Conns))
	// the gate opens by a timer, NOT by Stop's return
	go func() {
		time.Sleep(time.Duration(c.HoldMs) * time.Millisecond)
		g.open()
	}()
	var lateMu sync.Mutex
	var lateConns []net.Conn
	var lateWg sync.WaitGroup
	fd0 := 0
	if c.Late > 0 && c.Order != "before-run" && c.Order != "concurrent-start" {
		// a finalizer must not close what the server forgot to close
		defer func(old int, lim int64) { debug.SetGCPercent(old); debug.SetMemoryLimit(lim) }(debug.SetGCPercent(-1), debug.SetMemoryLimit(768<<20))
		if len(c.Conns) == 0 {
			fd0 = socketFDs() - 1 // the server's listening socket will be gone
		}
		for g := 0; g < 2; g++ {
			lateWg.Add(1)
			go func() {
				defer lateWg.Done()
				for k := 0; k < c.Late; k++ {
					cn, err := net.DialTimeout("tcp", addr, time.Second)
					if err != nil {
						return
					}
					lateMu.Lock()
					lateConns = append(lateConns, cn)
					lateMu.Unlock()
				}
			}()
		}
		time.Sleep(time.Duration(c.Spin%5) * 100 * time.Microsecond)
	}
	defer func() {
		lateWg.Wait()
		for _, cn := range lateConns {
			cn.Close()
		}
	}()
	var ok1, ok2 bool
	var err1, err2 error
	var atReturnInflight, atReturnDone, atReturnStarted int64
	switch c.Order {
	case "twice-concurrent":
		var wg sync.WaitGroup
		wg.Add(2)
		go func() {
			defer wg.Done()
			ok1, err1 = timedStop()
			atReturnInflight, atReturnDone, atReturnStarted = atomic.LoadInt64(&inflight), atomic.LoadInt64(&oncloseDone), atomic.LoadInt64(&oncloseStarted)
		}()
		go func() { defer wg.Done(); ok2, err2 = timedStop() }()
		wg.Wait()
	default:
		ok1, err1 = timedStop()
		atReturnInflight, atReturnDone, atReturnStarted = atomic.LoadInt64(&inflight), atomic.LoadInt64(&oncloseDone), atomic.LoadInt64(&oncloseStarted)
		ok2, err2 = true, nil
		if c.Order == "twice-seq" {
			ok2, err2 = timedStop()
		}
	}
	g.open()
	if !ok1 || !ok2 {
		st.Inconclusive("Stop did not return within 10 s although every client had left (C11 decides hangs)")
		return nil
	}
	if err1 != nil || err2 != nil {
		return lab.Failf("stop-error", "order=%s: Stop returned %v / %v", c.Order, err1, err2)
	}
	desc := fmt.Sprintf("order=%s, %d connections %+v, gate opens %d ms after Stop was called", c.Order, len(c.Conns), c.Conns, c.HoldMs)
	if atReturnInflight != 0 {
		return lab.Failf("handler-running-after-stop", "%s: at the instant Stop returned %d handlers were still running", desc, atReturnInflight)
	}
	lateWg.Wait()
	lateMu.Lock()
	late := append([]net.Conn{}, lateConns...)
	lateMu.Unlock()
	if len(late) > 0 {
		desc += fmt.Sprintf(", %d silent clients connected while Stop was being called", len(late))
		st.Class("late-connections")
	}
	if (len(late) == 0 && atReturnDone != accepted) || atReturnDone < accepted || atReturnDone != atReturnStarted {
		return lab.Failf("onclose-pending-after-stop", "%s: at the instant Stop returned only %d of %d OnClose callbacks had completed (%d started)", desc, atReturnDone, accepted, atReturnStarted)
	}
	ret, rerr := waitRun()
	if f := portChecks(ret, rerr); f != nil {
		return f
	}
	if len(late) > 0 {
		// Stop and Run have returned: whatever the server accepted is closed. What the client sees is not
		// evidence enough - now and then the kernel leaves a client "established" towards a listener that
		// went away before the handshake's last ACK was processed (no server-side socket exists, nothing was
		// ever accepted; measured with a bare net.Listener too) - so the oracle is the server's side: this
		// process must not hold more socket descriptors than the harness itself has open (collector off).
		if len(c.Conns) == 0 {
			want := fd0 + len(late)
			got := socketFDs()
			for dl := time.Now().Add(time.Second); got > want && time.Now().Before(dl); got = socketFDs() {
				time.Sleep(2 * time.Millisecond)
			}
			if got > want {
				return lab.Failf("connection-left-open-after-stop", "%s: 1 s after Stop and Run have returned this process holds %d socket descriptors, %d more than the harness's own %d client sockets (+%d before the server started): the server accepted connections and never closed them", desc, got, got-want, len(late), fd0)
			}
		}
		buf := make([]byte, 256)
		halfOpen := 0
		for _, cn := range late {
			_ = cn.SetReadDeadline(time.Now().Add(50 * time.Millisecond))
			for {
				_, err := cn.Read(buf)
				if err == nil {
					continue // e.g. the notice of disconnection
				}
				if ne, ok := err.(net.Error); ok && ne.Timeout() {
					halfOpen++
				}
				break
			}
		}
		if halfOpen > 0 {
			st.ClassN("late-client-still-established-without-server-side-socket", int64(halfOpen))
		}
		if d := atomic.LoadInt64(&oncloseDone); d != atReturnDone {
			return lab.Failf("onclose-after-stop", "%s: %d OnClose callbacks had completed when Stop returned, %d a little later: connections were still being closed after Stop had returned", desc, atReturnDone, d)
		}
	}
	return nil
}

func TestC12(t *testing.T) {
	lab.Prop[c12Case]{
		ID: "C12", Part: "stop",
		Rule: "rapid: order of Stop relative to Run in {before Run, concurrently with Run's start (a sweep of 8..24 busy-wait delays of 0..1 ms after Run was started, plus 0..200 scheduler yields), after Ready, twice in sequence, twice concurrently} x 0..6 connections whose state at Stop time is handler held on a gate / handler sleeping / client just closed / OnClose callback held / requests + Unbind pipelined in one write with slow handlers (nobody waits for the answers) / the handler of the Unbind route itself held on the gate or sleeping; plain or TLS sessions; optionally 2 x 2..128 silent clients that connect WHILE Stop is being called (garbage collector off, a finalizer is not a close), half of those cases as a storm of 20..80 start / connect-flood / Stop cycles; every other client has closed (FIN, Unbind or RST) before Stop is called and the gate is opened by a timer 20..250 ms after Stop was called, never by Stop's return; oracle sampled at the instant EACH Stop call returns: in-flight handler counter == 0 and completed OnClose callbacks == accepted connections; after Run returned (must be nil): dial refused and the port can be bound again, in the storms the process holds no socket descriptor beyond the harness's own client sockets and no OnClose callback completes after Stop returned; second Stop harmless; non-trivial = >= 1 handler/OnClose still held when Stop was called, or Stop overlapped/preceded Run; distinct by hash",
		Gen: func(t *rapid.T) c12Case {
			late := 0
			if rapid.IntRange(0, 2).Draw(t, "late") == 0 {
				late = rapid.SampledFrom([]int{2, 8, 32, 128}).Draw(t, "nlate")
			}
			c := c12Case{
				Late:   late,
				Order:  rapid.SampledFrom([]string{"after-ready", "after-ready", "after-ready", "before-run", "concurrent-start", "concurrent-start", "twice-seq", "twice-concurrent"}).Draw(t, "order"),
				Spin:   rapid.SampledFrom([]int{0, 1, 2, 5, 10, 50, 200}).Draw(t, "spin"),
				HoldMs: rapid.SampledFrom([]int{20, 60, 120, 250}).Draw(t, "hold"),
			}
			if c.Order == "concurrent-start" {
				c.DelayUs = rapid.SampledFrom([]int{0, 0, 5, 20, 50, 100}).Draw(t, "delayus")
				c.StepUs = rapid.SampledFrom([]int{1, 3, 7, 15, 40}).Draw(t, "stepus")
				c.Rounds = rapid.IntRange(8, 24).Draw(t, "rounds")
			}
			if c.Order != "before-run" && c.Order != "concurrent-start" {
				n := rapid.IntRange(0, 6).Draw(t, "nconns")
				for i := 0; i < n; i++ {
					c.Conns = append(c.Conns, c12Conn{
						State: rapid.SampledFrom([]string{"handler-gated", "handler-gated", "handler-slow", "just-closed", "onclose-held", "pipelined-slow", "pipelined-slow", "unbind-gated", "unbind-slow"}).Draw(t, "state"),
						How:   rapid.SampledFrom([]string{"fin", "unbind", "rst"}).Draw(t, "how"),
						K:     rapid.IntRange(1, 3).Draw(t, "k"),
					})
				}
				if rapid.IntRange(0, 2).Draw(t, "tls") == 0 {
					for i := range c.Conns {
						c.Conns[i].TLS = true
					}
				}
				if c.Late > 0 && rapid.Bool().Draw(t, "storm") {
					// a storm of start / connect-flood / Stop cycles without other connections
					c.Conns = nil
					c.Rounds = rapid.SampledFrom([]int{20, 40, 80}).Draw(t, "cycles")
				}
			}
			return c
		},
		Exec: c12Exec,
	}.Run(t)
}
