package props

import (
	"fmt"
	"strings"
	"sync"
	"sync/atomic"
	"testing"
	"time"

	"github.com/go-ldap/ldap/v3"
	"github.com/jimlambrt/gldap"
	"github.com/jimlambrt/gldap/testdirectory"
	"pgregory.net/rapid"

	"verifharness/lab"
	"verifharness/wire"
)

type c19User struct {
	DN    string   `json:"dn"`
	HasPw bool     `json:"has_pw"`
	Pws   []string `json:"pws"`
}

type c19Bind struct {
	DN        string `json:"dn"`
	PW        string `json:"pw"`
	Transport string `json:"transport"` // plain tls starttls
	Raw       bool   `json:"raw"`       // raw independent client instead of go-ldap (plain only)
}

type c19Case struct {
	Users []c19User `json:"users"`
	Anon  bool      `json:"anon"`
	Binds []c19Bind `json:"binds"`
	// ViaDefaults starts a dedicated directory whose users / anonymous setting
	// come from WithDefaults instead of the Set* methods.
	ViaDefaults bool `json:"via_defaults"`
	// Churn: before the judged binds, SetUsers is called Churn times alternating between an older variant of
	// the user set (other passwords, one user fewer) and the final one WHILE ChurnBinders clients bind in a loop;
	// those binds are not judged (either set may answer them). The judged binds start when nothing is in flight.
	Churn        int `json:"churn,omitempty"`
	ChurnBinders int `json:"churn_binders,omitempty"`
	// Mods: LDAP Modify requests on users' password attribute (replace with new values / delete the attribute),
	// sent by a client after the user set is in place and before the judged binds: "the right credentials" are
	// the ones the directory holds at the time of the bind. Only users whose DN selects exactly one entry under
	// the directory's substring matching are modified.
	Mods []c19Mod `json:"mods,omitempty"`
}

type c19Mod struct {
	User int      `json:"user"`
	Op   string   `json:"op"` // replace delete
	Vals []string `json:"vals,omitempty"`
}

// c19Modifiable: the directory selects the entry to modify with strings.Contains(entryDN, requestDN) after
// trimming parentheses, '*', '|' and blanks; a modify is only generated for a DN that selects exactly its own entry.
func c19Modifiable(users []c19User, i int) bool {
	d := users[i].DN
	if d == "" || strings.ContainsAny(d, "()*|\x00") || strings.TrimSpace(d) != d {
		return false
	}
	n := 0
	for _, u := range users {
		if strings.Contains(u.DN, d) {
			n++
		}
	}
	return n == 1
}

// c19Effective: the user set after the case's password modifications.
func c19Effective(c c19Case) []c19User {
	if len(c.Mods) == 0 {
		return c.Users
	}
	out := make([]c19User, len(c.Users))
	copy(out, c.Users)
	for _, m := range c.Mods {
		if m.User < 0 || m.User >= len(out) || !c19Modifiable(c.Users, m.User) {
			continue
		}
		u := out[m.User]
		switch m.Op {
		case "replace":
			if u.HasPw { // replace only touches an attribute that exists
				u.Pws = append([]string{}, m.Vals...)
			}
		case "delete":
			u.HasPw, u.Pws = false, nil
		}
		out[m.User] = u
	}
	return out
}

var c19DNs = []string{"cn=a", "cn=a,dc=x", "cn=ab", "CN=A", "cn=b", "cn=a ", "", "cn=a,dc=x,dc=y", "dc=x", "cn=a\x00"}
var c19Long = strings.Repeat("0123456789abcdef", 4) + "-tail-" // 70 bytes: longer than any fixed 64-byte buffer

var c19PWs = []string{"pw1", "pw2", "", "PW1", "pw", "pw11", " ", "pw1 ", "pw1\x00", "\x00", "pw1\x00\x00x",
	c19Long, c19Long[:64], c19Long[:69] + "X", c19Long + "x", c19Long[:63]}

// c19Model is the three-line reference predicate of the statement.
func c19Model(c c19Case, b c19Bind) bool {
	if b.PW == "" && c.Anon {
		return true
	}
	for _, u := range c19Effective(c) {
		if u.DN == b.DN && u.HasPw && len(u.Pws) > 0 && u.Pws[0] == b.PW {
			return true
		}
	}
	return false
}

func c19Nontrivial(c c19Case, b c19Bind) bool {
	if b.PW == "" {
		return true
	}
	eff := c19Effective(c)
	for i, u := range c.Users {
		// a password the user had before / has after a Modify of its password attribute
		if u.DN == b.DN && len(c.Mods) > 0 && fmt.Sprint(u.Pws) != fmt.Sprint(eff[i].Pws) {
			for _, p := range append(append([]string{}, u.Pws...), eff[i].Pws...) {
				if p == b.PW {
					return true
				}
			}
		}
	}
	for _, u := range eff {
		if u.DN != b.DN && (strings.HasPrefix(u.DN, b.DN) || strings.HasPrefix(b.DN, u.DN) || strings.EqualFold(u.DN, b.DN)) {
			return true
		}
		for i, p := range u.Pws {
			if i > 0 && p == b.PW {
				return true
			}
		}
	}
	return false
}

func c19Entries(c c19Case) []*gldap.Entry {
	var out []*gldap.Entry
	for _, u := range c.Users {
		attrs := map[string][]string{"name": {"n"}}
		if u.HasPw {
			attrs["password"] = append([]string{}, u.Pws...)
		}
		out = append(out, gldap.NewEntry(u.DN, attrs))
	}
	return out
}

func c19Exec(c c19Case, st *lab.Stats) *lab.Fail {
	st.Sample(c)
	handles := map[string]*dirHandle{}
	get := func(mode string) (*dirHandle, error) {
		if h, ok := handles[mode]; ok {
			return h, nil
		}
		var h *dirHandle
		var err error
		if c.ViaDefaults {
			t := &labT{}
			users := c19Entries(c)
			if users == nil {
				users = []*gldap.Entry{}
			}
			h, err = startDir(mode, testdirectory.WithDefaults(t, &testdirectory.Defaults{Users: users, AllowAnonymousBind: c.Anon}))
		} else {
			h, err = sharedDir(mode)
			if err == nil {
				h.D.SetUsers(c19Entries(c)...)
				h.D.SetAllowAnonymousBind(c.Anon)
			}
		}
		if err == nil {
			handles[mode] = h
		}
		return h, err
	}
	if c.ViaDefaults {
		defer func() {
			for _, h := range handles {
				done := make(chan struct{})
				go func(h *dirHandle) { h.D.Stop(); close(done) }(h)
				select {
				case <-done:
				case <-time.After(10 * time.Second):
				}
			}
		}()
	}
	// the binds of a case are independent: they run at the same time on their own connections
	results := make([]*lab.Fail, len(c.Binds))
	var wgb sync.WaitGroup
	var inconclusive atomic.Value
	for i, b := range c.Binds {
		// directories are created/reconfigured before the concurrent part
		if _, err := get(dirFor(b.Transport)); err != nil {
			st.Inconclusive(err.Error())
			return nil
		}
		_ = i
	}
	if c.Churn > 0 && !c.ViaDefaults {
		if h, ok := handles["plain"]; ok {
			st.Class("setusers-churn")
			final := c19Entries(c)
			older := c
			older.Users = nil
			for i, u := range c.Users {
				if i == 0 {
					continue // the older set lacks the first user
				}
				v := u
				v.Pws = nil
				for _, p := range u.Pws {
					v.Pws = append(v.Pws, "old-"+p)
				}
				older.Users = append(older.Users, v)
			}
			old := c19Entries(older)
			stop := make(chan struct{})
			var cw sync.WaitGroup
			for b := 0; b < c.ChurnBinders; b++ {
				cw.Add(1)
				go func(b int) {
					defer cw.Done()
					// even binders keep one connection and bind as fast as they can, odd ones reconnect every time
					var cl *lab.Client
					defer func() {
						if cl != nil {
							cl.Abort()
						}
					}()
					for k := 0; ; k++ {
						select {
						case <-stop:
							return
						default:
						}
						if cl == nil {
							var err error
							if cl, err = lab.Dial(h.addr()); err != nil {
								cl = nil
								return
							}
						}
						dn, pw := "cn=nobody", "x"
						if len(c.Users) > 0 {
							u := c.Users[(b+k)%len(c.Users)]
							dn = u.DN
							if len(u.Pws) > 0 {
								pw = u.Pws[0]
							}
						}
						_ = cl.Send(ReqSpec{Req: wire.Req{Kind: "bind", MsgID: int64(3 + k%1000), Version: 3, DN: []byte(dn), Password: []byte(pw)}}.Bytes())
						if _, err := cl.Next(5 * time.Second); err != nil || b%2 == 1 {
							cl.Abort()
							cl = nil
						}
					}
				}(b)
			}
			time.Sleep(300 * time.Microsecond) // the binders are at work
			for k := 0; k < c.Churn; k++ {
				h.D.SetUsers(old...)
				time.Sleep(time.Duration(k%3) * 50 * time.Microsecond)
				h.D.SetUsers(final...)
				time.Sleep(time.Duration((k+1)%3) * 50 * time.Microsecond)
			}
			close(stop)
			cw.Wait()
		}
	}
	if len(c.Mods) > 0 {
		st.Class("password-modified-over-ldap")
		for mode, h := range handles {
			cn, err := h.dial(mode)
			if err != nil {
				st.Inconclusive("dial for modify: " + err.Error())
				return nil
			}
			cn.SetTimeout(10 * time.Second)
			for _, m := range c.Mods {
				if m.User < 0 || m.User >= len(c.Users) || !c19Modifiable(c.Users, m.User) {
					continue
				}
				mr := ldap.NewModifyRequest(c.Users[m.User].DN, nil)
				if m.Op == "delete" {
					mr.Delete("password", nil)
				} else {
					mr.Replace("password", m.Vals)
				}
				st.Class("password-" + m.Op)
				if err := cn.Modify(mr); err != nil {
					cn.Close()
					return lab.Failf("password-modify-refused", "modify %s of the password of the existing user %q (users=%+v) over %s: %v", m.Op, c.Users[m.User].DN, c.Users, mode, err)
				}
			}
			cn.Close()
		}
	}
	for i, b := range c.Binds {
		wgb.Add(1)
		go func(i int, b c19Bind) {
			defer wgb.Done()
			results[i] = func() *lab.Fail {
				want := c19Model(c, b)
				st.Case(c19Nontrivial(c, b), lab.JSONKey([]interface{}{c.Users, c.Anon, b.DN, b.PW, c.Mods}), "transport="+b.Transport,
					fmt.Sprintf("expect-success=%v", want), fmt.Sprintf("anon=%v", c.Anon), fmt.Sprintf("raw=%v", b.Raw), fmt.Sprintf("via-defaults=%v", c.ViaDefaults))
				h, err := get(dirFor(b.Transport))
				if err != nil {
					inconclusive.Store(err.Error())
					return nil
				}
				var code int64 = -1
				if b.Raw && b.Transport == "plain" {
					cl, err := lab.Dial(h.addr())
					if err != nil {
						inconclusive.Store(err.Error())
						return nil
					}
					req := ReqSpec{Req: wire.Req{Kind: "bind", MsgID: int64(7 + i), Version: 3, DN: []byte(b.DN), Password: []byte(b.PW)}}
					_ = cl.Send(req.Bytes())
					m, err := cl.Next(10 * time.Second)
					if err != nil {
						cl.Close()
						return lab.Failf("bind-no-answer", "bind %q/%q got no answer: %v", b.DN, b.PW, err)
					}
					res, err := m.Result()
					cl.Close()
					if err != nil || m.OpTag != wire.AppBindResponse || m.ID != int64(7+i) {
						return lab.Failf("bind-bad-response", "bind response malformed: tag=%d id=%d err=%v", m.OpTag, m.ID, err)
					}
					code = res.Code
				} else {
					conn, err := h.dial(b.Transport)
					if err != nil {
						inconclusive.Store("dial " + b.Transport + ": " + err.Error())
						return nil
					}
					conn.SetTimeout(10 * time.Second)
					_, err = conn.SimpleBind(&ldap.SimpleBindRequest{Username: b.DN, Password: b.PW, AllowEmptyPassword: true})
					conn.Close()
					if err == nil {
						code = 0
					} else if le, ok := err.(*ldap.Error); ok && le.ResultCode < 200 {
						code = int64(le.ResultCode)
					} else {
						return lab.Failf("bind-no-answer", "bind %q/%q over %s failed without an LDAP result: %v", b.DN, b.PW, b.Transport, err)
					}
				}
				desc := fmt.Sprintf("bind dn=%q pw=%q over %s (anonymous binds allowed=%v, users=%+v, password modifications sent over LDAP before the bind=%+v)", b.DN, b.PW, b.Transport, c.Anon, c.Users, c.Mods)
				if want && code != 0 {
					return lab.Failf("bind-refused", "%s: result %d, the reference predicate says success", desc, code)
				}
				if !want && code == 0 {
					return lab.Failf("bind-accepted", "%s: result success, the reference predicate says invalidCredentials", desc)
				}
				if !want && code != 49 {
					return lab.Failf("bind-wrong-code", "%s: result %d, want invalidCredentials (49)", desc, code)
				}
				return nil
			}()
		}(i, b)
	}
	wgb.Wait()
	if v := inconclusive.Load(); v != nil {
		st.Inconclusive(v.(string))
		return nil
	}
	for _, f := range results {
		if f != nil {
			return f
		}
	}
	return nil
}

func genC19(viaDefaults bool) func(t *rapid.T) c19Case {
	return func(t *rapid.T) c19Case {
		c := c19Case{Anon: rapid.Bool().Draw(t, "anon"), ViaDefaults: viaDefaults}
		n := rapid.IntRange(0, 6).Draw(t, "nusers")
		dn := rapid.OneOf(rapid.SampledFrom(c19DNs), rapid.SampledFrom(c19DNs), rapid.SampledFrom(c19DNs), rapid.StringMatching(`cn=[a-c]{1,2}(,dc=[xy])?`))
		pw := rapid.OneOf(rapid.SampledFrom(c19PWs), rapid.SampledFrom(c19PWs), rapid.StringMatching(`[a-zA-Z0-9 ]{0,6}`))
		for i := 0; i < n; i++ {
			u := c19User{DN: dn.Draw(t, "udn"), HasPw: rapid.IntRange(0, 5).Draw(t, "haspw") > 0}
			if u.HasPw {
				u.Pws = rapid.SliceOfN(pw, 0, 3).Draw(t, "pws")
			}
			c.Users = append(c.Users, u)
		}
		// password modifications over LDAP (set part only: the shared directories; one case in three)
		var modifiable []int
		for i := range c.Users {
			if c19Modifiable(c.Users, i) {
				modifiable = append(modifiable, i)
			}
		}
		if !viaDefaults && len(modifiable) > 0 && rapid.IntRange(0, 2).Draw(t, "mods") == 0 {
			newpw := rapid.SampledFrom([]string{"pw1", "pw2", "new", "PW1", "pw11", "pw1 ", c19Long, c19Long[:64], c19Long[:69] + "X"})
			for k := rapid.IntRange(1, 3).Draw(t, "nmods"); k > 0; k-- {
				m := c19Mod{User: rapid.SampledFrom(modifiable).Draw(t, "moduser"), Op: rapid.SampledFrom([]string{"replace", "replace", "replace", "delete"}).Draw(t, "modop")}
				if m.Op == "replace" {
					m.Vals = rapid.SliceOfN(newpw, 1, 3).Draw(t, "modvals")
				}
				c.Mods = append(c.Mods, m)
			}
		}
		eff := c19Effective(c)
		nb := rapid.IntRange(1, 8).Draw(t, "nbinds")
		transports := []string{"plain", "plain", "plain", "tls", "starttls"}
		if viaDefaults {
			transports = []string{"plain"}
		}
		for i := 0; i < nb; i++ {
			b := c19Bind{Transport: rapid.SampledFrom(transports).Draw(t, "transport"), Raw: rapid.Bool().Draw(t, "raw")}
			// mostly DNs and passwords related to the user set
			if len(c.Users) > 0 && rapid.IntRange(0, 3).Draw(t, "fromusers") > 0 {
				u := c.Users[rapid.IntRange(0, len(c.Users)-1).Draw(t, "uidx")]
				b.DN = u.DN
				switch rapid.IntRange(0, 4).Draw(t, "dnvariant") {
				case 0:
					b.DN = strings.ToUpper(u.DN)
				case 1:
					if len(u.DN) > 1 {
						b.DN = u.DN[:len(u.DN)-1]
					}
				case 2:
					b.DN = u.DN + ",dc=x"
				}
				ui := 0
				for k := range c.Users {
					if c.Users[k].DN == u.DN {
						ui = k
					}
				}
				known := append(append([]string{}, u.Pws...), eff[ui].Pws...) // before and after a modification
				if len(known) > 0 && rapid.IntRange(0, 3).Draw(t, "userpw") > 0 {
					b.PW = known[rapid.IntRange(0, len(known)-1).Draw(t, "pwidx")]
				} else {
					b.PW = pw.Draw(t, "bpw")
				}
			} else {
				b.DN = dn.Draw(t, "bdn")
				b.PW = pw.Draw(t, "bpw")
			}
			c.Binds = append(c.Binds, b)
		}
		if !viaDefaults && rapid.IntRange(0, 2).Draw(t, "churn") == 0 {
			c.Churn = rapid.SampledFrom([]int{1, 2, 4, 8, 16, 32}).Draw(t, "nchurn")
			c.ChurnBinders = rapid.SampledFrom([]int{2, 4, 8, 8}).Draw(t, "binders")
		}
		return c
	}
}

const c19Rule = "user sets of 0..6 entries over a DN pool with prefixes / extensions / case variants / duplicates, password attribute missing, [], [\"\"], one or several values, both anonymous-bind settings (SetAllowAnonymousBind; part defaults: WithDefaults at Start), bind DNs and passwords from the pool (including passwords with trailing NUL bytes and 63..71-byte passwords that differ only after byte 64), variants of user DNs, empty and random; one case in three first calls SetUsers 2..64 times, alternating an older variant of the user set with the final one, while 2..8 clients bind in a loop (not judged), and judges its binds only when nothing is in flight any more; one case in three (part set) then sends 1..3 LDAP Modify requests (replace with 1..3 new values / delete) on the password attribute of users whose DN selects exactly one entry, and the binds use passwords from before and after; over plain / TLS / StartTLS with go-ldap SimpleBind(AllowEmptyPassword) and the raw independent client, the 1..8 binds of a case running at the same time on their own connections; oracle = success iff (pw empty and anonymous allowed) or exists user with DN == bind DN and first password value (as held by the directory at the time of the bind) == pw, else invalidCredentials; non-trivial = bind DN is a prefix/extension/case variant of a user DN, or password equals a non-first value, or a value the user had before / has after a modification, or is empty; distinct by hash of (users, anon, dn, pw)"

func TestC19(t *testing.T) {
	lab.Prop[c19Case]{ID: "C19", Part: "set", Rule: "rapid: " + c19Rule, Gen: genC19(false), Exec: c19Exec}.Run(t)
}

func TestC19Defaults(t *testing.T) {
	lab.Prop[c19Case]{ID: "C19", Part: "defaults", Rule: "rapid, one directory per case started WithDefaults: " + c19Rule, Gen: genC19(true), Exec: c19Exec}.Run(t)
}
