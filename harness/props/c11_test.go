package props

import (
	"crypto/tls"
	"encoding/json"
	"fmt"
	"net"
	"os"
	"os/exec"
	"runtime"
	"sort"
	"strings"
	"sync"
	"sync/atomic"
	"testing"
	"time"

	"github.com/jimlambrt/gldap"
	"pgregory.net/rapid"

	"verifharness/lab"
	"verifharness/wire"
)

// connection states at the moment Stop is called
var c11States = []string{"idle", "idle-after-requests", "partial-frame", "tls-no-hello", "tls-partial-hello", "tls-idle", "busy-pipelining", "not-reading",
	"not-reading-then-unbind", // asks for a huge answer, never reads it, sends Unbind: the read loop has ended, a handler is parked in Write
	"starttls-stalled",        // asks for a huge answer AND StartTLS, never reads: a handshake is pending behind a parked writer
	"starttls-no-hello",       // got the StartTLS response but never starts the handshake
	"not-reading-pipelined",   // pipelines five requests with large answers and never reads: several handlers queue on the connection's writer
	"tls-not-reading",         // inside a TLS session (TLS listener): asks for a huge answer and never reads it - a handler is parked in tls.Conn.Write
	"starttls-not-reading",    // the same inside a session upgraded with StartTLS
}

type c11Scenario struct {
	States     []string `json:"states"`
	SecondStop bool     `json:"second_stop"`
	Cut        int      `json:"cut"` // partial frame / hello: bytes sent
	// Timeouts: the server is configured WithReadTimeout / WithWriteTimeout of
	// one hour (deadlines far in the future must not keep Stop from returning)
	Timeouts bool `json:"timeouts,omitempty"`
	// Late: this many further clients connect (to every server of the scenario) WHILE Stop is being called
	// and then stay silent: connections that are being accepted at the very moment the server stops
	Late int `json:"late,omitempty"`
	// Rounds > 1: the scenario is repeated that many times on fresh servers inside one worker scenario, without
	// the settling pause (a storm of start / connect / stop cycles)
	Rounds int `json:"rounds,omitempty"`
}

func c11NeedsTLS(s string) bool { return strings.HasPrefix(s, "tls-") }

const c11Bound = 5 * time.Second

func c11Run(index int, raw json.RawMessage) lab.WorkerResult {
	var s c11Scenario
	if err := json.Unmarshal(raw, &s); err != nil {
		return lab.WorkerResult{Skipped: "bad scenario"}
	}
	if s.Rounds <= 1 {
		return c11RunOnce(s, 30*time.Millisecond)
	}
	// a storm: the same scenario many times in a row on fresh servers, Stop called as soon as the
	// connections exist (what matters is the moment of Stop relative to the accept loop)
	var last lab.WorkerResult
	for i := 0; i < s.Rounds; i++ {
		last = c11RunOnce(s, time.Duration(i%4)*300*time.Microsecond)
		if !last.OK || last.Skipped != "" {
			if last.Msg != "" {
				last.Msg = fmt.Sprintf("round %d of %d: %s", i+1, s.Rounds, last.Msg)
			}
			return last
		}
	}
	return last
}

func c11RunOnce(s c11Scenario, settle time.Duration) lab.WorkerResult {
	bound := c11Bound
	for _, stt := range s.States {
		// a TLS session whose send buffer is full: crypto/tls's Conn.Close gives its close_notify alert five seconds
		// (it replaces the write deadline with now+5s and does not look at the earlier write error) - documented
		// standard-library behaviour outside gldap, once per connection and in parallel. A healthy Stop then
		// needs about 5.5 s, so "what a healthy server never needs" is 7 s for such a scenario.
		if stt == "tls-not-reading" || stt == "starttls-not-reading" {
			bound = c11Bound + 2*time.Second
		}
	}
	main, _, err := lab.SharedPKI()
	if err != nil {
		return lab.WorkerResult{Skipped: err.Error()}
	}
	big := string(make([]byte, 32<<10))
	var entered int64
	h := func(w *gldap.ResponseWriter, r *gldap.Request) {
		_, id, _ := gldap.VerifMessageInfo(r)
		atomic.AddInt64(&entered, 1)
		if n := int(id % tagStride); n >= 500 && n <= 520 && n != 501 && n != 502 { // the not-reading client's requests: large answers
			for i := 0; i < 400; i++ {
				e := r.NewSearchResponseEntry("cn=x")
				e.AddAttribute("p", []string{big})
				if err := w.Write(e); err != nil {
					return
				}
			}
		}
		_ = respondOK(w, r)
	}
	mux, _ := gldap.NewMux()
	_ = mux.DefaultRoute(h)
	_ = mux.ExtendedOperation(lab.StartTLSHandler(main.ServerTLS()), gldap.ExtendedOperationStartTLS)
	var plain, tlsSrv *lab.Server
	needTLS, needPlain := false, len(s.States) == 0
	for _, stt := range s.States {
		if c11NeedsTLS(stt) {
			needTLS = true
		} else {
			needPlain = true
		}
	}
	if needPlain {
		if plain, err = lab.StartServer(mux, timeoutOpts(lab.ServerOpts{}, s.Timeouts)); err != nil {
			return lab.WorkerResult{Skipped: err.Error()}
		}
	}
	if needTLS {
		if tlsSrv, err = lab.StartServer(mux, timeoutOpts(lab.ServerOpts{TLS: main.ServerTLS()}, s.Timeouts)); err != nil {
			return lab.WorkerResult{Skipped: err.Error()}
		}
	}
	var conns []net.Conn
	var stopPipelining int32
	var wg sync.WaitGroup
	var lateDone func()
	closeAll := func() {
		atomic.StoreInt32(&stopPipelining, 1)
		if lateDone != nil {
			lateDone()
		}
		for _, c := range conns {
			c.Close()
		}
		wg.Wait()
	}
	skip := func(msg string) lab.WorkerResult {
		closeAll()
		return lab.WorkerResult{Skipped: msg}
	}
	for tag, stt := range s.States {
		base := int64(tag+1) * tagStride
		addr := ""
		if c11NeedsTLS(stt) {
			addr = tlsSrv.Addr
		} else {
			addr = plain.Addr
		}
		raw, err := net.DialTimeout("tcp", addr, 5*time.Second)
		if err != nil {
			return skip(err.Error())
		}
		conns = append(conns, raw)
		switch stt {
		case "idle":
		case "idle-after-requests":
			cl := lab.Wrap(raw)
			for i := 0; i < 3; i++ {
				_ = cl.Send(simpleReq("search", base+int64(i)+1).Bytes())
				if _, err := cl.Next(10 * time.Second); err != nil {
					return skip("request before idle unanswered: " + err.Error())
				}
			}
		case "partial-frame":
			b := simpleReq("search", base+1).Bytes()
			k := s.Cut % len(b)
			if k == 0 {
				k = 1
			}
			_, _ = raw.Write(b[:k])
		case "tls-no-hello":
		case "tls-partial-hello":
			hello := clientHello()
			k := s.Cut % len(hello)
			if k == 0 {
				k = 1
			}
			_, _ = raw.Write(hello[:k])
		case "tls-idle":
			tc := tls.Client(raw, main.ClientTLS(false))
			_ = tc.SetDeadline(time.Now().Add(10 * time.Second))
			if err := tc.Handshake(); err != nil {
				return skip("tls handshake: " + err.Error())
			}
			_ = tc.SetDeadline(time.Time{})
			cl := lab.Wrap(tc)
			_ = cl.Send(simpleReq("bind", base+1).Bytes())
			if _, err := cl.Next(10 * time.Second); err != nil {
				return skip("tls request unanswered: " + err.Error())
			}
			conns[len(conns)-1] = tc
		case "tls-not-reading", "starttls-not-reading":
			if stt == "starttls-not-reading" {
				cl := lab.Wrap(raw)
				_ = cl.Send(ReqSpec{Req: wire.Req{Kind: "extended", MsgID: base + 502, ExtName: []byte(wire.OIDStartTLS)}}.Bytes())
				if _, err := cl.Next(10 * time.Second); err != nil {
					return skip("starttls response missing: " + err.Error())
				}
			}
			tc := tls.Client(raw, main.ClientTLS(false))
			_ = tc.SetDeadline(time.Now().Add(10 * time.Second))
			if err := tc.Handshake(); err != nil {
				return skip("tls handshake: " + err.Error())
			}
			_ = tc.SetDeadline(time.Time{})
			if _, err := tc.Write(simpleReq("search", base+500).Bytes()); err != nil {
				return skip("tls request: " + err.Error())
			}
			conns[len(conns)-1] = tc
		case "busy-pipelining":
			wg.Add(2)
			go func() { // writer: requests as fast as it can
				defer wg.Done()
				n := int64(0)
				for atomic.LoadInt32(&stopPipelining) == 0 {
					n++
					if _, err := raw.Write(simpleReq("search", base+1+n%400000).Bytes()); err != nil {
						return
					}
				}
			}()
			go func() { // reader: drains responses
				defer wg.Done()
				buf := make([]byte, 64<<10)
				for {
					if _, err := raw.Read(buf); err != nil {
						return
					}
				}
			}()
		case "not-reading":
			_, _ = raw.Write(simpleReq("search", base+500).Bytes())
		case "not-reading-pipelined":
			var buf []byte
			for j := 0; j < 5; j++ {
				buf = append(buf, simpleReq("search", base+510+int64(j)).Bytes()...)
			}
			_, _ = raw.Write(buf)
		case "not-reading-then-unbind":
			_, _ = raw.Write(append(simpleReq("search", base+500).Bytes(), simpleReq("unbind", base+501).Bytes()...))
		case "starttls-stalled":
			_, _ = raw.Write(append(simpleReq("search", base+500).Bytes(), ReqSpec{Req: wire.Req{Kind: "extended", MsgID: base + 502, ExtName: []byte(wire.OIDStartTLS)}}.Bytes()...))
		case "starttls-no-hello":
			cl := lab.Wrap(raw)
			_ = cl.Send(ReqSpec{Req: wire.Req{Kind: "extended", MsgID: base + 502, ExtName: []byte(wire.OIDStartTLS)}}.Bytes())
			if _, err := cl.Next(10 * time.Second); err != nil {
				return skip("starttls response missing: " + err.Error())
			}
		}
	}
	// let the states settle: handlers of not-reading clients fill the socket buffers
	time.Sleep(settle)
	type stopRes struct {
		err error
		d   time.Duration
	}
	stopOne := func(srv *lab.Server) chan stopRes {
		ch := make(chan stopRes, 2)
		go func() {
			t0 := time.Now()
			err := srv.S.Stop()
			ch <- stopRes{err, time.Since(t0)}
		}()
		return ch
	}
	var chans []chan stopRes
	var servers []*lab.Server
	var lateMu sync.Mutex
	var lateWg sync.WaitGroup
	lateAccepted := 0
	if s.Late > 0 {
		// clients that arrive while Stop is running: they connect as fast as they can from just before the
		// Stop call until the listener is gone, say nothing and never close
		for _, srv := range []*lab.Server{plain, tlsSrv} {
			if srv == nil {
				continue
			}
			for g := 0; g < 2; g++ {
				lateWg.Add(1)
				go func(addr string) {
					defer lateWg.Done()
					for k := 0; k < s.Late; k++ {
						cn, err := net.DialTimeout("tcp", addr, time.Second)
						if err != nil {
							return
						}
						lateMu.Lock()
						conns = append(conns, cn)
						lateAccepted++
						lateMu.Unlock()
					}
				}(srv.Addr)
			}
		}
		time.Sleep(time.Duration(s.Cut%5) * 100 * time.Microsecond)
	}
	for _, srv := range []*lab.Server{plain, tlsSrv} {
		if srv == nil {
			continue
		}
		servers = append(servers, srv)
		chans = append(chans, stopOne(srv))
		if s.SecondStop {
			chans = append(chans, stopOne(srv))
		}
	}
	lateDone = func() { lateWg.Wait() }
	deadline := time.After(bound)
	// an early look: what is a Stop that needs more than 2 s waiting for? (goes into the diagnostics)
	early := make(chan string, 1)
	earlyStop := make(chan struct{})
	defer close(earlyStop)
	go func() {
		select {
		case <-time.After(2 * time.Second):
			early <- lab.Describe(lab.GldapGoroutines(), 12)
		case <-earlyStop:
		}
	}()
	returned := 0
	var stopErr error
	timedOut := false
	consumed := map[int]bool{}
	for ci, ch := range chans {
		select {
		case r := <-ch:
			consumed[ci] = true
			returned++
			if r.err != nil {
				stopErr = r.err
			}
		case <-deadline:
			timedOut = true
		}
		if timedOut {
			break
		}
	}
	states := append([]string{}, s.States...)
	sort.Strings(states)
	desc := fmt.Sprintf("connections at Stop time: %v, concurrent second Stop: %v, one-hour read/write timeouts configured: %v", states, s.SecondStop, s.Timeouts)
	if s.Late > 0 {
		lateWg.Wait()
		lateMu.Lock()
		desc += fmt.Sprintf(", %d silent clients connected while Stop was being called", lateAccepted)
		lateMu.Unlock()
	}
	if timedOut {
		stable, dump := lab.StableCensus(500 * time.Millisecond)
		uniq := map[string]bool{}
		for _, x := range s.States {
			uniq[x] = true
		}
		var names []string
		for x := range uniq {
			names = append(names, x)
		}
		sort.Strings(names)
		if !stable {
			// not a deadlock: either the machine is slow or the server spins.
			// Give it 10 more seconds while measuring that this process is
			// being scheduled; a Stop that still has not returned then is a
			// live-lock, not slowness.
			ticks := 0
			t0 := time.Now()
			var more bool
			for time.Since(t0) < 10*time.Second && !more {
				time.Sleep(10 * time.Millisecond)
				ticks++
				for _, ch := range chans {
					select {
					case r := <-ch:
						ch <- r
						more = true
					default:
					}
				}
				if more {
					// some Stop returned: count how many are still pending
					pending := 0
					for _, ch := range chans {
						if len(ch) == 0 {
							pending++
						}
					}
					more = pending == 0
				}
			}
			if more {
				closeAll()
				return lab.WorkerResult{Skipped: fmt.Sprintf("Stop needed between 5 and 15 s (machine too slow to judge): %s", desc), Delivered: true}
			}
			closeAll()
			if ticks < 500 {
				return lab.WorkerResult{Skipped: "Stop missed the bound, census unstable and the process was starved of CPU (inconclusive)", Delivered: true}
			}
			return lab.WorkerResult{OK: false, FP: "stop-hang-spinning:" + strings.Join(names, "+"), Delivered: true,
				Msg: fmt.Sprintf("%s: Server.Stop did not return within 15 s although this process was scheduled normally (%d of 1000 ticks); the server's goroutines keep running without finishing:\n%s", desc, ticks, lab.Describe(dump, 10))}
		}
		// A stable census at the bound is strong evidence, but one observation in some 40 000 scenarios (thorough
		// sweep at seed 2, machine fully loaded, never reproduced in 30 000 further scenarios) showed a handler
		// parked in Write at 5.5 s whose write deadline should have fired at 0.5 s. Before the verdict the
		// scenario therefore waits on: a Stop that returns after all (within 20 s in total) was late, not hung -
		// reported as inconclusive with all diagnostics - and only a Stop that is STILL waiting then, with the
		// same goroutines parked in the same places, is a hang. (The statement says "bounded time"; 5 s is what a
		// healthy server never needs, 20 s is the bound the verdict uses.)
		firstKey := lab.Describe(dump, 10)
		waited := time.Now()
		returnedLate := false
		for time.Since(waited) < 15*time.Second && !returnedLate {
			time.Sleep(50 * time.Millisecond)
			pending := 0
			for ci, ch := range chans {
				if consumed[ci] {
					continue
				}
				select {
				case <-ch:
					consumed[ci] = true
				default:
					pending++
				}
			}
			returnedLate = pending == 0
		}
		// everything that may explain a hang goes into the message: the kernel's view of this process's sockets
		// (timers, queues) and every goroutine
		diag := ""
		if out, err := exec.Command("sh", "-c", fmt.Sprintf("ss -tanoip 2>/dev/null | grep -E 'pid=%d,' | head -60", os.Getpid())).CombinedOutput(); err == nil {
			diag += "\nsockets of this process (ss -tanoip):\n" + string(out)
		}
		buf := make([]byte, 256<<10)
		buf = buf[:runtime.Stack(buf, true)]
		if len(buf) > 48<<10 {
			buf = buf[:48<<10]
		}
		diag += "\nall goroutines:\n" + string(buf)
		select {
		case e := <-early:
			diag = "\ngldap goroutines 2 s after Stop was called:\n" + e + diag
		default:
		}
		if returnedLate {
			// Stop did return, in bounded time: the statement holds for this scenario. That it needed seconds where
			// milliseconds are normal is recorded (class, and the diagnostics kept by the parent) but it is no violation.
			closeAll()
			return lab.WorkerResult{OK: true, Delivered: true, Msg: fmt.Sprintf("late: Stop returned only about %v after it was called (expected within %v): %s\ncensus at %v:\n%s%s", (bound + 500*time.Millisecond + time.Since(waited)).Round(100*time.Millisecond), bound, desc, bound, firstKey, diag)}
		}
		if _, dump2 := lab.StableCensus(200 * time.Millisecond); lab.Describe(dump2, 10) != firstKey {
			dump = dump2
		}
		closeAll()
		return lab.WorkerResult{OK: false, FP: "stop-hang:" + strings.Join(names, "+"), Delivered: true,
			Msg: fmt.Sprintf("%s: Server.Stop did not return within %v (stable goroutine census at %v, two identical snapshots 0.5 s apart; still not returned %v later):\n%s%s", desc, bound+15*time.Second, bound, 15*time.Second, lab.Describe(dump, 10), diag)}
	}
	if stopErr != nil {
		closeAll()
		return lab.WorkerResult{OK: false, FP: "stop-error", Msg: fmt.Sprintf("%s: Stop returned %v", desc, stopErr), Delivered: true}
	}
	// Run returns nil
	for _, srv := range servers {
		select {
		case err := <-srv.RunErr:
			if err != nil {
				closeAll()
				return lab.WorkerResult{OK: false, FP: "run-error-after-stop", Msg: fmt.Sprintf("%s: Run returned %v", desc, err), Delivered: true}
			}
		case <-time.After(bound):
			closeAll()
			return lab.WorkerResult{OK: false, FP: "run-not-returned", Msg: fmt.Sprintf("%s: Run did not return within %v after Stop returned", desc, bound), Delivered: true}
		}
	}
	closeAll()
	return lab.WorkerResult{OK: true, Delivered: len(s.States) > 0}
}

func timeoutOpts(o lab.ServerOpts, on bool) lab.ServerOpts {
	if on {
		o.ReadTimeout = time.Hour
		o.WriteTimeout = time.Hour
	}
	return o
}

type c11Batch struct {
	Scenarios []c11Scenario `json:"scenarios"`
}

func c11Exec(c c11Batch, st *lab.Stats) *lab.Fail {
	cases := make([]interface{}, len(c.Scenarios))
	for i := range c.Scenarios {
		cases[i] = c.Scenarios[i]
	}
	res, err := lab.RunWorkers("c11", cases, 60*time.Second)
	if err != nil {
		st.Inconclusive(err.Error())
		return nil
	}
	var first *lab.Fail
	for i, r := range res {
		s := c.Scenarios[i]
		if r.Skipped != "" {
			st.Class("skipped:" + r.Skipped[:min(len(r.Skipped), 40)])
			// a scenario that cannot be set up is harness trouble on a correct tree: never silent
			st.Inconclusive(fmt.Sprintf("scenario %+v skipped: %s", s, r.Skipped))
			continue
		}
		cls := []string{fmt.Sprintf("conns<=%d", bucket(len(s.States))), fmt.Sprintf("second-stop=%v", s.SecondStop), fmt.Sprintf("timeouts=%v", s.Timeouts), fmt.Sprintf("late=%d", s.Late), fmt.Sprintf("storm=%v", s.Rounds > 1)}
		for _, x := range s.States {
			cls = append(cls, "state="+x)
		}
		st.Case(len(s.States) >= 1, lab.JSONKey(s), cls...)
		if st.WantSample() {
			st.Sample(s)
		}
		if r.OK && strings.HasPrefix(r.Msg, "late:") {
			st.Class("stop-returned-late(5..20s)")
			lab.KeepNote("C11-late-stop", r.Msg)
		}
		var f *lab.Fail
		switch {
		case r.Died:
			f = lab.Failf("worker-died", "scenario %+v: worker process died/hung: %s %s", s, r.ExitInfo, tailOf(r.Stderr, 600))
		case !r.OK:
			f = &lab.Fail{Fingerprint: r.FP, Message: r.Msg}
		}
		if f != nil {
			known := st.Report(f, c11Batch{Scenarios: []c11Scenario{s}})
			if !known && first == nil {
				first = f
			}
		}
	}
	return first
}

// TestC11Enum: complete over the empty set, single states and pairs (both tiers).
func TestC11Enum(t *testing.T) {
	lab.SkipIfReplayOther(t, "enum")
	st := lab.GetStats("C11", "enum")
	st.SetRule("complete enumeration: no connection, every single connection state of {idle, idle after served requests, first k bytes of a frame sent, TCP connected to a TLS listener without / with a partial ClientHello, idle inside a TLS session, pipelining requests as fast as it can, requesting a 13 MB answer and never reading, the same followed by an Unbind, the same together with a StartTLS request, StartTLS answered but handshake never started, inside a TLS session (TLS listener, or upgraded with StartTLS) requesting a 13 MB answer and never reading} and every unordered pair of states, six such TLS sessions at once, each with and without a concurrent second Stop, single states also with one-hour read/write timeouts configured on the server; plus 4 / 32 silent clients per dialer that connect WHILE Stop is being called (plain and TLS listeners, with and without timeouts), and storms of 150 start / connect-flood / Stop cycles per scenario with no settling pause (Stop racing the accept loop); clients never close by themselves; executed in worker child processes; oracle = Stop returns and Run returns nil in bounded time: a Stop still waiting after 20 s with the same goroutines parked in the same places as at 5 s (two identical censuses 0.5 s apart) is a hang; one that needs between 5 and 20 s is counted as late (class) and its diagnostics are kept; a healthy server needs milliseconds (5.5 s with a TLS session that does not read: crypto/tls gives close_notify 5 s per connection, in parallel - the first bound is 7 s there); non-trivial = >= 1 connection open at Stop; distinct by scenario")
	defer lab.FlushAll()
	if lab.ReplayInto(t, st, "enum", c11Exec) {
		return
	}
	var all []c11Scenario
	all = append(all, c11Scenario{}, c11Scenario{SecondStop: true})
	for i, a := range c11States {
		all = append(all, c11Scenario{States: []string{a}, Cut: 7}, c11Scenario{States: []string{a}, SecondStop: true, Cut: 20}, c11Scenario{States: []string{a}, Cut: 9, Timeouts: true})
		for _, b := range c11States[i:] {
			all = append(all, c11Scenario{States: []string{a, b}, Cut: 11})
		}
	}
	// several TLS sessions that do not read: each Close spends crypto/tls's five seconds on its close_notify - side by
	// side, not one after the other (a healthy Stop still needs about 5.5 s)
	n6 := []string{"tls-not-reading", "tls-not-reading", "tls-not-reading", "tls-not-reading", "tls-not-reading", "tls-not-reading"}
	all = append(all, c11Scenario{States: n6, Cut: 3}, c11Scenario{States: []string{"starttls-not-reading", "starttls-not-reading", "starttls-not-reading", "tls-not-reading", "tls-not-reading", "tls-not-reading", "idle"}, Cut: 4, SecondStop: true})
	// clients arriving while Stop runs, against a plain and a TLS server, with and without configured timeouts
	for _, base := range [][]string{{"idle"}, {"tls-no-hello"}, {"idle", "tls-idle"}} {
		for _, late := range []int{4, 32} {
			for _, to := range []bool{false, true} {
				for rep := 0; rep < 3; rep++ {
					all = append(all, c11Scenario{States: base, Cut: 5 + rep, Late: late, Timeouts: to, SecondStop: rep == 2})
				}
			}
		}
	}
	// storms of start / connect-flood / stop cycles: Stop racing the accept loop
	storms := 28
	if lab.Thorough() {
		storms = 96
	}
	for k := 0; k < storms; k++ {
		base := [][]string{nil, {"idle"}, {"tls-no-hello"}, {"idle", "tls-idle"}}[k%4]
		all = append(all, c11Scenario{States: base, Cut: 5 + k, Late: []int{8, 32, 64}[k%3], Timeouts: k%2 == 1, SecondStop: k%4 < 2, Rounds: 150})
	}
	shard, nsh := lab.Shard()
	var mine []c11Scenario
	for i, s := range all {
		if i%nsh == shard {
			mine = append(mine, s)
		}
	}
	if f := c11Exec(c11Batch{Scenarios: mine}, st); f != nil {
		t.Fatalf("%s", f.Error())
	}
	st.SetExhaustive(true)
}

func TestC11Random(t *testing.T) {
	lab.Prop[c11Batch]{
		ID: "C11", Part: "random",
		Rule: "rapid: batches of 3..6 scenarios, each a multiset of 0..16 connections in the states above with generated cut offsets, optional concurrent second Stop, optional one-hour timeouts and optionally 1..64 silent clients per dialer arriving while Stop is being called; same oracle",
		Gen: func(t *rapid.T) c11Batch {
			var b c11Batch
			n := rapid.IntRange(3, 6).Draw(t, "n")
			for i := 0; i < n; i++ {
				s := c11Scenario{SecondStop: rapid.Bool().Draw(t, "second"), Cut: rapid.IntRange(1, 400).Draw(t, "cut"), Timeouts: rapid.IntRange(0, 2).Draw(t, "timeouts") == 0}
				k := rapid.IntRange(0, 16).Draw(t, "nconns")
				s.States = rapid.SliceOfN(rapid.SampledFrom(c11States), k, k).Draw(t, "states")
				if rapid.IntRange(0, 2).Draw(t, "late") == 0 {
					s.Late = rapid.SampledFrom([]int{1, 4, 16, 64}).Draw(t, "nlate")
				}
				b.Scenarios = append(b.Scenarios, s)
			}
			return b
		},
		Exec: c11Exec,
	}.Run(t)
}
