package props

import (
	"fmt"
	"testing"

	"verifharness/wire"
)

// FuzzC02DecodeStream: coverage-guided byte streams through the server's own
// request reading/decoding path (hook VerifDecodeStream, no recover inside).
func FuzzC02DecodeStream(f *testing.F) {
	canon, trees, cb := c02Setup()
	_ = canon
	for _, b := range cb {
		f.Add(b)
	}
	// two frames in one stream, hostile constants, earlier crashers
	f.Add(append(append([]byte{}, cb[0]...), cb[1]...))
	for _, h := range [][]byte{
		{}, {0x30}, {0x30, 0x00}, {0x30, 0x80}, {0x30, 0x84, 0xff, 0xff, 0xff, 0xff}, {0x30, 0x03, 0x02, 0x01, 0x01},
		{0x30, 0x05, 0x02, 0x01, 0x01, 0x60, 0x00}, {0x30, 0x05, 0x02, 0x01, 0x01, 0x42, 0x00},
		{0x30, 0x0c, 0x02, 0x01, 0x01, 0x60, 0x07, 0x02, 0x01, 0x02, 0x04, 0x00, 0x80, 0x00},
		{0x16, 0x03, 0x01, 0x00, 0x05, 0x01, 0x00, 0x00, 0x01, 0x00},
	} {
		f.Add(h)
	}
	for ci := range trees {
		for i, m := range wire.Enumerate(trees[ci], true) {
			if i%97 != 0 {
				continue
			}
			if t := wire.Apply(trees[ci], m); t != nil {
				f.Add(t.Bytes())
			}
		}
	}
	f.Fuzz(func(t *testing.T, b []byte) {
		if len(b) > 64<<10 {
			return
		}
		if _, fail := decodeNoPanic(b); fail != nil {
			fmt.Printf("FINGERPRINT=%s\n", fail.Fingerprint)
			t.Fatalf("%s", fail.Error())
		}
	})
}
