package props

import (
	"fmt"
	"net"
	"sync"
	"sync/atomic"
	"testing"
	"time"

	"github.com/jimlambrt/gldap"
	"pgregory.net/rapid"

	"verifharness/lab"
)

type c09Step struct {
	Kind string `json:"kind"` // open request close burst openmany
	Slot int    `json:"slot"` // which of the open slots (modulo)
	Op   string `json:"op,omitempty"`
	How  string `json:"how,omitempty"` // close: fin | unbind | rst
	N    int    `json:"n,omitempty"`
}

type c09Case struct {
	Steps []c09Step `json:"steps"`
	// LingerMs > 0: at the end one connection sends a request whose handler answers and then keeps running for that
	// long; the client closes at once, new connections are opened while the handler still runs, and the handler
	// asks for its ConnectionID again afterwards: "stable per connection" holds for as long as a handler has the request
	LingerMs int `json:"linger_ms,omitempty"`
}

type c09Slot struct {
	tls  bool
	cl   *lab.Client
	tag  int
	id   int // ConnectionID as reported (0 = not yet known)
	next int64
}

func c09Exec(c c09Case, st *lab.Stats) *lab.Fail {
	var mu sync.Mutex
	seenByTag := map[int]map[int]bool{} // tag -> set of ConnectionIDs its handlers reported
	closedIDs := map[int]int{}          // ConnectionID -> OnClose count
	onclose := make(chan int, 1024)
	h := func(w *gldap.ResponseWriter, r *gldap.Request) {
		_, id, _ := gldap.VerifMessageInfo(r)
		tag := tagOf(id)
		mu.Lock()
		if seenByTag[tag] == nil {
			seenByTag[tag] = map[int]bool{}
		}
		seenByTag[tag][r.ConnectionID()] = true
		mu.Unlock()
		_ = respondOK(w, r)
		if id%tagStride == 777777 && c.LingerMs > 0 {
			for k := 0; k < 10; k++ {
				time.Sleep(time.Duration(c.LingerMs/10) * time.Millisecond)
				mu.Lock()
				seenByTag[tag][r.ConnectionID()] = true
				mu.Unlock()
			}
		}
	}
	pki, _, perr := lab.SharedPKI()
	if perr != nil {
		st.Inconclusive(perr.Error())
		return nil
	}
	mux, _ := gldap.NewMux()
	_ = mux.DefaultRoute(h)
	_ = mux.ExtendedOperation(lab.StartTLSHandler(pki.ServerTLS()), gldap.ExtendedOperationStartTLS)
	srv, err := lab.StartServer(mux, lab.ServerOpts{OnClose: func(id int) {
		mu.Lock()
		closedIDs[id]++
		mu.Unlock()
		onclose <- id
	}})
	if err != nil {
		st.Inconclusive(err.Error())
		return nil
	}
	var open []*c09Slot
	defer func() {
		for _, s := range open {
			s.cl.Close()
		}
		_ = srv.Stop(15 * time.Second)
	}()
	nextTag := 0
	allIDs := map[int]int{} // ConnectionID -> tag, over the server's whole life
	closeThenOpenWhileOpen := false
	sawClose := false
	request := func(s *c09Slot, op string) *lab.Fail {
		s.next++
		id := int64(s.tag)*tagStride + s.next
		if err := s.cl.Send(simpleReq(op, id).Bytes()); err != nil {
			return lab.Failf("request-failed", "tag %d: send: %v", s.tag, err)
		}
		m, err := s.cl.Next(10 * time.Second)
		if err != nil || m.ID != id {
			return lab.Failf("request-failed", "tag %d: no answer to msgid %d: %v", s.tag, id, err)
		}
		mu.Lock()
		ids := seenByTag[s.tag]
		var got []int
		for k := range ids {
			got = append(got, k)
		}
		mu.Unlock()
		if len(got) != 1 {
			return lab.Failf("connection-id-unstable", "connection tag %d: its requests reported ConnectionIDs %v", s.tag, got)
		}
		cid := got[0]
		if cid <= 0 {
			return lab.Failf("connection-id-not-positive", "connection tag %d reports ConnectionID %d", s.tag, cid)
		}
		if prev, ok := allIDs[cid]; ok && prev != s.tag {
			return lab.Failf("connection-id-reused", "ConnectionID %d is reported by connection tag %d and was already used by connection tag %d of the same server", cid, s.tag, prev)
		}
		allIDs[cid] = s.tag
		s.id = cid
		return nil
	}
	openOne := func() *lab.Fail {
		cl, err := lab.Dial(srv.Addr)
		if err != nil {
			return lab.Failf("dial-failed", "%v", err)
		}
		s := &c09Slot{cl: cl, tag: nextTag}
		nextTag++
		if sawClose && len(open) > 0 {
			closeThenOpenWhileOpen = true
		}
		open = append(open, s)
		return request(s, "bind")
	}
	for si, stp := range c.Steps {
		st.Class("step=" + stp.Kind)
		switch stp.Kind {
		case "open":
			if len(open) >= 64 {
				continue
			}
			if f := openOne(); f != nil {
				return f
			}
		case "silent":
			// a connection that never sends a request (a health check, a port scan): it has an ID too - the one
			// OnClose reports - and that ID belongs to it for the server's whole life
			mu.Lock()
			before := map[int]int{}
			for k, v := range closedIDs {
				before[k] = v
			}
			mu.Unlock()
			cl, err := lab.Dial(srv.Addr)
			if err != nil {
				return lab.Failf("dial-failed", "%v", err)
			}
			if stp.How == "rst" {
				rst(rawConn(cl.C))
			} else {
				if stp.How == "unbind" { // half a frame, then FIN
					_ = cl.Send(simpleReq("search", 5).Bytes()[:7])
				}
				cl.Close()
			}
			tag := nextTag
			nextTag++
			sid := 0
			deadline := time.After(10 * time.Second)
			for sid == 0 {
				mu.Lock()
				for k, v := range closedIDs {
					if v > before[k] {
						sid = k
					}
				}
				mu.Unlock()
				if sid != 0 {
					break
				}
				select {
				case <-onclose:
				case <-deadline:
					return lab.Failf("onclose-missing-silent", "step %d: a connection that connected and closed without a request was never reported to OnClose", si)
				}
			}
			if sid <= 0 {
				return lab.Failf("connection-id-not-positive", "OnClose reported ConnectionID %d for a connection that never sent a request", sid)
			}
			if prev, ok := allIDs[sid]; ok {
				return lab.Failf("connection-id-reused", "OnClose reported ConnectionID %d for a connection that never sent a request (tag %d); that ID was already used by connection tag %d of the same server", sid, tag, prev)
			}
			allIDs[sid] = tag
			sawClose = true
		case "otherserver":
			// another gldap server starts, serves one connection and stops in the same process
			mux2, _ := gldap.NewMux()
			_ = mux2.DefaultRoute(func(w *gldap.ResponseWriter, r *gldap.Request) { _ = respondOK(w, r) })
			srv2, err := lab.StartServer(mux2, lab.ServerOpts{})
			if err != nil {
				st.Inconclusive(err.Error())
				return nil
			}
			for k := 0; k < stp.N; k++ {
				if cl2, err := lab.Dial(srv2.Addr); err == nil {
					_ = cl2.Send(simpleReq("bind", 3).Bytes())
					_, _ = cl2.Next(10 * time.Second)
					cl2.Close()
				}
			}
			_ = srv2.Stop(15 * time.Second)
		case "openmany":
			// several connections opened at the same time by separate goroutines
			n := stp.N
			var wg sync.WaitGroup
			slots := make([]*c09Slot, n)
			errs := make([]error, n)
			for i := 0; i < n; i++ {
				slots[i] = &c09Slot{tag: nextTag}
				nextTag++
				wg.Add(1)
				go func(i int) {
					defer wg.Done()
					slots[i].cl, errs[i] = lab.Dial(srv.Addr)
				}(i)
			}
			wg.Wait()
			for i := 0; i < n; i++ {
				if errs[i] != nil {
					return lab.Failf("dial-failed", "%v", errs[i])
				}
				open = append(open, slots[i])
			}
			for i := 0; i < n; i++ {
				if f := request(slots[i], "search"); f != nil {
					return f
				}
			}
		case "request":
			if len(open) == 0 {
				continue
			}
			if f := request(open[stp.Slot%len(open)], stp.Op); f != nil {
				return f
			}
		case "starttls":
			// upgrade an open connection: it stays the same connection
			if len(open) == 0 {
				continue
			}
			s := open[stp.Slot%len(open)]
			if s.tls {
				continue
			}
			s.next++
			if err := s.cl.StartTLS(pki.ClientTLS(false), int64(s.tag)*tagStride+s.next); err != nil {
				return lab.Failf("starttls-failed", "tag %d: %v", s.tag, err)
			}
			s.tls = true
			if f := request(s, "search"); f != nil {
				return f
			}
		case "manyrequests":
			// a long session: N pipelined requests on one connection
			if len(open) == 0 {
				continue
			}
			s := open[stp.Slot%len(open)]
			var buf []byte
			first := s.next + 1
			for i := 0; i < stp.N; i++ {
				s.next++
				buf = append(buf, simpleReq("search", int64(s.tag)*tagStride+s.next).Bytes()...)
			}
			go func() { _ = s.cl.Send(buf) }()
			for i := 0; i < stp.N; i++ {
				if _, err := s.cl.Next(10 * time.Second); err != nil {
					return lab.Failf("request-failed", "tag %d: long session (requests %d..%d): %v", s.tag, first, s.next, err)
				}
			}
			mu.Lock()
			if len(seenByTag[s.tag]) != 1 || !seenByTag[s.tag][s.id] {
				got := fmt.Sprint(seenByTag[s.tag])
				mu.Unlock()
				return lab.Failf("connection-id-unstable", "connection tag %d (ID %d): after %d requests its handlers reported ConnectionIDs %s", s.tag, s.id, s.next, got)
			}
			mu.Unlock()
		case "burst":
			// requests on all open connections at the same time
			var wg sync.WaitGroup
			fails := make([]*lab.Fail, len(open))
			var fmu sync.Mutex
			for i, s := range open {
				wg.Add(1)
				go func(i int, s *c09Slot) {
					defer wg.Done()
					s.next++
					id := int64(s.tag)*tagStride + s.next
					_ = s.cl.Send(simpleReq("search", id).Bytes())
					if m, err := s.cl.Next(10 * time.Second); err != nil || m.ID != id {
						fmu.Lock()
						fails[i] = lab.Failf("request-failed", "tag %d: no answer in burst: %v", s.tag, err)
						fmu.Unlock()
					}
				}(i, s)
			}
			wg.Wait()
			for _, f := range fails {
				if f != nil {
					return f
				}
			}
			mu.Lock()
			for _, s := range open {
				if len(seenByTag[s.tag]) != 1 || !seenByTag[s.tag][s.id] {
					mu.Unlock()
					return lab.Failf("connection-id-unstable", "connection tag %d (ID %d): after a concurrent burst its requests reported %v", s.tag, s.id, seenByTag[s.tag])
				}
			}
			mu.Unlock()
		case "close":
			if len(open) == 0 {
				continue
			}
			i := stp.Slot % len(open)
			s := open[i]
			open = append(open[:i:i], open[i+1:]...)
			switch stp.How {
			case "unbind":
				_ = s.cl.Send(simpleReq("unbind", int64(s.tag)*tagStride+999999).Bytes())
				_, _, _ = readUntilClosed(s.cl, 10*time.Second)
				s.cl.Close()
			case "rst":
				rst(rawConn(s.cl.C))
			default:
				if s.tls {
					_ = rawConn(s.cl.C).Close()
				} else {
					s.cl.Close()
				}
			}
			// wait for this connection's OnClose
			deadline := time.After(10 * time.Second)
			for {
				mu.Lock()
				n := closedIDs[s.id]
				mu.Unlock()
				if n >= 1 {
					break
				}
				select {
				case <-onclose:
				case <-deadline:
					mu.Lock()
					defer mu.Unlock()
					return lab.Failf("onclose-wrong-id", "step %d: connection tag %d has ConnectionID %d but OnClose was never called with it (OnClose calls so far: %v)", si, s.tag, s.id, closedIDs)
				}
			}
			sawClose = true
		}
	}
	if c.LingerMs > 0 && len(open) > 0 {
		st.Class("handler-outlives-its-connection")
		s := open[0]
		open = open[1:]
		lid := int64(s.tag)*tagStride + 777777
		if err := s.cl.Send(simpleReq("search", lid).Bytes()); err != nil {
			return lab.Failf("request-failed", "tag %d: send: %v", s.tag, err)
		}
		if m, err := s.cl.Next(10 * time.Second); err != nil || m.ID != lid {
			return lab.Failf("request-failed", "tag %d: no answer to the lingering request: %v", s.tag, err)
		}
		s.cl.Close()
		// new connections arrive while the handler of the closed one is still running: a few early, and - when most of
		// the lingering time has passed - more than any pool or free list of connection state is likely to hold
		var temps []*c09Slot
		defer func() {
			for _, ts := range temps {
				ts.cl.Close()
			}
		}()
		burst := func(n int) *lab.Fail {
			for k := 0; k < n; k++ {
				cl, err := lab.Dial(srv.Addr)
				if err != nil {
					return lab.Failf("dial-failed", "%v", err)
				}
				ts := &c09Slot{cl: cl, tag: nextTag}
				nextTag++
				temps = append(temps, ts)
				if f := request(ts, "bind"); f != nil {
					return f
				}
			}
			return nil
		}
		time.Sleep(time.Duration(c.LingerMs/5) * time.Millisecond)
		if f := burst(3); f != nil {
			return f
		}
		time.Sleep(time.Duration(c.LingerMs*3/5) * time.Millisecond)
		if f := burst(70); f != nil {
			return f
		}
		time.Sleep(time.Duration(c.LingerMs/4) * time.Millisecond)
		mu.Lock()
		var got []int
		for k := range seenByTag[s.tag] {
			got = append(got, k)
		}
		mu.Unlock()
		if len(got) != 1 {
			return lab.Failf("connection-id-unstable", "connection tag %d: a handler that kept running %d ms after its client had closed (while new connections were accepted) saw its request report ConnectionIDs %v", s.tag, c.LingerMs, got)
		}
		// its OnClose comes once the handler has returned
		dl := time.After(15 * time.Second)
		for done := false; !done; {
			mu.Lock()
			done = closedIDs[s.id] >= 1
			mu.Unlock()
			if done {
				break
			}
			select {
			case <-onclose:
			case <-dl:
				return lab.Failf("onclose-wrong-id", "connection tag %d (ConnectionID %d): OnClose was not called within 15 s after its lingering handler returned", s.tag, s.id)
			}
		}
	}
	// final: OnClose delivered exactly the IDs of the closed connections, once each
	mu.Lock()
	defer mu.Unlock()
	for id, n := range closedIDs {
		if n > 1 {
			return lab.Failf("onclose-twice", "OnClose was called %d times with ConnectionID %d", n, id)
		}
		if _, ok := allIDs[id]; !ok {
			return lab.Failf("onclose-wrong-id", "OnClose was called with ConnectionID %d which no connection reported", id)
		}
	}
	for _, s := range open {
		if closedIDs[s.id] != 0 {
			return lab.Failf("onclose-wrong-id", "OnClose was called with ConnectionID %d of connection tag %d which is still open", s.id, s.tag)
		}
	}
	st.Case(closeThenOpenWhileOpen, lab.JSONKey(c), fmt.Sprintf("connections<=%d", bucket(nextTag)), fmt.Sprintf("close-then-open=%v", closeThenOpenWhileOpen))
	st.AddExtra("connections_opened", int64(nextTag))
	st.Sample(c)
	return nil
}

func TestC09(t *testing.T) {
	lab.Prop[c09Case]{
		ID: "C09", Part: "ids",
		Rule: "rapid action sequences (up to 60 steps) over ONE long-lived server: open / open several at once / request (any operation) / long session of 20..300 pipelined requests / StartTLS upgrade of an open connection / concurrent burst on all open connections / close (FIN, RST, Unbind; waits for OnClose) / a silent connection that connects and closes without a request (FIN, RST, half a frame + FIN; its ID is the one OnClose reports) / a second gldap server that starts, serves 0..3 connections and stops in the same process, up to 64 connections open at once; about one sequence in 50 ends with a handler that keeps running 1.5..6 s after its client closed, while 73 new connections are accepted (most of them late), and asks for its ConnectionID again and again; model = tag -> ConnectionID map: every request of a connection reports the same positive ID, IDs are pairwise different over the server's whole life (also after closes), OnClose delivers exactly the closed connection's ID, once; non-trivial = the sequence contains a close followed by an open while another connection is still open; distinct by hash",
		Gen: func(t *rapid.T) c09Case {
			var c c09Case
			n := rapid.IntRange(2, 60).Draw(t, "nsteps")
			for i := 0; i < n; i++ {
				s := c09Step{
					Kind: rapid.SampledFrom([]string{"open", "open", "open", "openmany", "request", "request", "burst", "close", "close", "manyrequests", "starttls", "silent", "silent", "otherserver"}).Draw(t, "kind"),
					Slot: rapid.IntRange(0, 63).Draw(t, "slot"),
				}
				switch s.Kind {
				case "request":
					s.Op = rapid.SampledFrom([]string{"bind", "search", "modify", "add", "delete", "extended"}).Draw(t, "op")
				case "close", "silent":
					s.How = rapid.SampledFrom([]string{"fin", "unbind", "rst"}).Draw(t, "how")
				case "otherserver":
					s.N = rapid.IntRange(0, 3).Draw(t, "n2")
				case "openmany":
					s.N = rapid.IntRange(2, 8).Draw(t, "n")
				case "manyrequests":
					s.N = rapid.SampledFrom([]int{20, 99, 100, 101, 150, 300}).Draw(t, "nreq")
				}
				c.Steps = append(c.Steps, s)
			}
			if rapid.IntRange(0, 49).Draw(t, "linger") == 23 {
				c.LingerMs = rapid.SampledFrom([]int{4000, 6000, 1500}).Draw(t, "lingerms")
			}
			return c
		},
		Exec: c09Exec,
	}.Run(t)
}

// TestC09Lifetime: one server, very many connections, IDs never repeat.
func TestC09Lifetime(t *testing.T) {
	lab.SkipIfReplayOther(t, "lifetime")
	st := lab.GetStats("C09", "lifetime")
	st.SetRule("one long-lived server: four connections that stay open for its whole life, then 70000 (thorough 140000) connections that connect and reset without a request (the connection counter passes 2^16), then N connections opened, served and closed by 16 client goroutines (N = 3000 quick / 100000 thorough per shard); the long-lived ones report the same ID at the end; every connection's ConnectionID is positive, never seen before on this server and the one OnClose later reports; each connection is a distinct non-trivial case")
	defer lab.FlushAll()
	if lab.ReplayInto(t, st, "lifetime", func(c struct{}, st *lab.Stats) *lab.Fail { return nil }) {
		return
	}
	total := 3000
	if lab.Thorough() {
		total = 100000
	}
	var mu sync.Mutex
	ids := map[int]int{}
	closes := map[int]int{}
	idOf := map[int64]int{}
	h := func(w *gldap.ResponseWriter, r *gldap.Request) {
		_, id, _ := gldap.VerifMessageInfo(r)
		mu.Lock()
		idOf[id] = r.ConnectionID()
		mu.Unlock()
		_ = respondOK(w, r)
	}
	mux, _ := gldap.NewMux()
	_ = mux.DefaultRoute(h)
	srv, err := lab.StartServer(mux, lab.ServerOpts{OnClose: func(id int) { mu.Lock(); closes[id]++; mu.Unlock() }})
	if err != nil {
		st.Inconclusive(err.Error())
		return
	}
	var wg sync.WaitGroup
	var fail *lab.Fail
	const workers = 16
	// four connections that live as long as the server: opened first, asked for their ID again at the end
	type elder struct {
		cl  *lab.Client
		cid int
	}
	var elders []elder
	for k := 0; k < 4; k++ {
		cl, err := lab.Dial(srv.Addr)
		if err != nil {
			st.Inconclusive(err.Error())
			return
		}
		defer cl.Abort()
		msg := int64(2000000000 + k)
		_ = cl.Send(simpleReq("search", msg).Bytes())
		if _, err := cl.Next(10 * time.Second); err != nil {
			st.Inconclusive("elder connection not served: " + err.Error())
			return
		}
		mu.Lock()
		cid := idOf[msg]
		delete(idOf, msg)
		if prev, dup := ids[cid]; dup && fail == nil {
			fail = lab.Failf("connection-id-reused", "ConnectionID %d reported by long-lived connection #%d was already used by connection #%d", cid, k, prev)
		}
		ids[cid] = -1 - k
		mu.Unlock()
		elders = append(elders, elder{cl, cid})
	}
	// a long life in fast motion: connections that come and go without a request (connect, reset), enough of
	// them to take the server's connection counter past 2^16
	churn := 70000
	if lab.Thorough() {
		churn = 140000
	}
	var churned int64
	for w := 0; w < workers; w++ {
		wg.Add(1)
		go func(w int) {
			defer wg.Done()
			for i := w; i < churn; i += workers {
				c, err := net.DialTimeout("tcp", srv.Addr, 5*time.Second)
				if err != nil {
					time.Sleep(time.Millisecond)
					continue
				}
				rst(c)
				atomic.AddInt64(&churned, 1)
			}
		}(w)
	}
	wg.Wait()
	st.ClassN("churned-connections-before", atomic.LoadInt64(&churned))
	for w := 0; w < workers; w++ {
		wg.Add(1)
		go func(w int) {
			defer wg.Done()
			for i := w; i < total; i += workers {
				cl, err := lab.Dial(srv.Addr)
				if err != nil {
					continue
				}
				msg := int64(i + 1)
				_ = cl.Send(simpleReq("search", msg).Bytes())
				_, err = cl.Next(10 * time.Second)
				cl.Close()
				mu.Lock()
				cid, ok := idOf[msg]
				delete(idOf, msg)
				if err == nil && ok {
					if cid <= 0 && fail == nil {
						fail = lab.Failf("connection-id-not-positive", "connection %d reports ConnectionID %d", i, cid)
					}
					if prev, dup := ids[cid]; dup && fail == nil {
						fail = lab.Failf("connection-id-reused", "ConnectionID %d reported by connection #%d was already used by connection #%d of the same server", cid, i, prev)
					}
					ids[cid] = i
				}
				mu.Unlock()
			}
		}(w)
	}
	wg.Wait()
	// the long-lived connections still carry the ID they started with
	for k, e := range elders {
		msg := int64(2000001000 + k)
		_ = e.cl.Send(simpleReq("search", msg).Bytes())
		if _, err := e.cl.Next(10 * time.Second); err != nil {
			if fail == nil {
				fail = lab.Failf("elder-not-served", "long-lived connection #%d (ConnectionID %d) is no longer served after %d later connections: %v", k, e.cid, atomic.LoadInt64(&churned)+int64(total), err)
			}
			continue
		}
		mu.Lock()
		if cid := idOf[msg]; cid != e.cid && fail == nil {
			fail = lab.Failf("connection-id-changed", "long-lived connection #%d reported ConnectionID %d at first and %d after %d later connections", k, e.cid, cid, atomic.LoadInt64(&churned)+int64(total))
		}
		delete(idOf, msg)
		mu.Unlock()
		e.cl.Abort()
	}
	_ = srv.Stop(20 * time.Second)
	time.Sleep(50 * time.Millisecond)
	mu.Lock()
	defer mu.Unlock()
	if fail == nil {
		for id := range ids {
			if closes[id] != 1 {
				fail = lab.Failf("onclose-wrong-id", "ConnectionID %d: OnClose called %d times over the server's life", id, closes[id])
				break
			}
		}
	}
	st.SetExtra("distinct_by_construction", int64(len(ids)))
	st.SetExtra("evaluations_extra", int64(len(ids)))
	st.ClassN("connections", int64(len(ids)))
	st.Sample(map[string]interface{}{"connections": len(ids), "workers": workers})
	if fail != nil {
		if !st.Report(fail, struct{}{}) {
			t.Fatalf("%s", fail.Error())
		}
	}
}

// TestC09AcceptFault: connection IDs stay unique and positive across temporary
// accept failures (descriptor exhaustion), run in a worker child process.
func TestC09AcceptFault(t *testing.T) {
	lab.SkipIfReplayOther(t, "acceptfault")
	st := lab.GetStats("C09", "acceptfault")
	st.SetRule("worker child process: 1..4 live bystander connections, then RLIMIT_NOFILE is lowered so that accept() fails repeatedly (EMFILE) for about 150 ms, then 40 more connections are opened and kept open; every connection's ConnectionID must be positive and pairwise different from all other live connections'; non-trivial = the accept failure was actually provoked; distinct by scenario")
	defer lab.FlushAll()
	exec := func(c c07Batch, st *lab.Stats) *lab.Fail {
		cases := make([]interface{}, len(c.Scenarios))
		for i := range c.Scenarios {
			cases[i] = c.Scenarios[i]
		}
		res, err := lab.RunWorkers("c07", cases, 90*time.Second)
		if err != nil {
			st.Inconclusive(err.Error())
			return nil
		}
		for i, r := range res {
			s := c.Scenarios[i]
			if r.Skipped != "" {
				st.Inconclusive(fmt.Sprintf("scenario %+v skipped: %s", s, r.Skipped))
				continue
			}
			st.Case(r.Delivered, lab.JSONKey([]interface{}{s, i}), fmt.Sprintf("bystanders=%d", s.Bystanders), fmt.Sprintf("delivered=%v", r.Delivered))
			st.Sample(s)
			var f *lab.Fail
			switch {
			case r.Died:
				f = lab.Failf("process-died:"+s.Fault, "scenario %+v: server process died/hung: %s %s", s, r.ExitInfo, tailOf(r.Stderr, 600))
			case !r.OK:
				f = &lab.Fail{Fingerprint: r.FP, Message: r.Msg}
			}
			if f != nil && !st.Report(f, c07Batch{Scenarios: []c07Scenario{s}}) {
				return f
			}
		}
		return nil
	}
	if lab.ReplayInto(t, st, "acceptfault", exec) {
		return
	}
	n := 3
	if lab.Thorough() {
		n = 12
	}
	var b c07Batch
	for i := 0; i < n; i++ {
		b.Scenarios = append(b.Scenarios, c07Scenario{Fault: "emfile-ids", Bystanders: 1 + i%4, Exchanges: 3})
	}
	if f := exec(b, st); f != nil {
		t.Fatalf("%s", f.Error())
	}
}
