package props

import (
	"crypto/tls"
	"crypto/x509"
	"fmt"
	"net"
	"runtime"
	"strings"
	"sync"
	"sync/atomic"
	"testing"
	"time"

	"github.com/go-ldap/ldap/v3"
	"github.com/jimlambrt/gldap"
	"github.com/jimlambrt/gldap/testdirectory"
	"pgregory.net/rapid"

	"verifharness/lab"
	"verifharness/wire"
)

type c18Offender struct {
	Kind   string `json:"kind"` // plaintext random silent partial-hello tls-nocert tls-otherca tls-selfsigned valid
	Op     string `json:"op"`   // operation of the LDAP request the offender sends
	Bytes  []byte `json:"bytes,omitempty"`
	HoldMs int    `json:"hold_ms"`
	Cut    int    `json:"cut"` // partial-hello: number of bytes sent
	// SNI (tls-* offenders): "" keeps the deployment's host name; "nosni" sends no server_name extension;
	// anything else is sent as the server name. The offender then does not verify the server's certificate.
	SNI string `json:"sni,omitempty"`
}

type c18Case struct {
	Target     string        `json:"target"` // server-tls server-mtls dir-mtls
	Offenders  []c18Offender `json:"offenders"`
	Bystanders int           `json:"bystanders"`
}

// --- shared targets -------------------------------------------------------------

type c18Target struct {
	addr      string
	mtls      bool
	validCfg  *tls.Config      // what a conforming client uses
	noCertCfg *tls.Config      // trusts the server but presents no certificate
	sibling   *tls.Certificate // client certificate of ANOTHER deployment made by the same tool (same subject, same serial, different CA key)
	entered   *sync.Map        // msgID -> true (plain servers only)
	sent      *sync.Map        // msgID -> true: every message ID a harness client of this target ever put on the wire
	strayMu   sync.Mutex
	strays    []string // handler entries whose message ID no harness client sent (plain servers only)
	onclose   *int64
	dir       *dirHandle
}

var (
	c18Mu      sync.Mutex
	c18Targets = map[string]*c18Target{}
	c18Counter int64
)

func c18Get(name string) (*c18Target, error) {
	c18Mu.Lock()
	defer c18Mu.Unlock()
	if t, ok := c18Targets[name]; ok {
		return t, nil
	}
	t := &c18Target{entered: &sync.Map{}, sent: &sync.Map{}, onclose: new(int64)}
	lt := &labT{}
	var err error
	func() {
		defer func() {
			if r := recover(); r != nil {
				err = fmt.Errorf("setup: %v", r)
			}
		}()
		switch name {
		case "server-tls", "server-mtls":
			var opts []testdirectory.Option
			if name == "server-mtls" {
				opts = append(opts, testdirectory.WithMTLS(lt))
				t.mtls = true
			}
			// the TLS configuration the repository itself hands to users
			srvCfg, cliCfg := testdirectory.GetTLSConfig(lt, opts...)
			mux, _ := gldap.NewMux()
			note := func(route string, r *gldap.Request) {
				kind, id, _ := gldap.VerifMessageInfo(r)
				t.entered.Store(id, true)
				if _, ok := t.sent.Load(id); !ok {
					t.strayMu.Lock()
					t.strays = append(t.strays, fmt.Sprintf("%s handler, connection %d, decoded message kind %q with message ID %d", route, r.ConnectionID(), kind, id))
					t.strayMu.Unlock()
				}
			}
			_ = mux.DefaultRoute(func(w *gldap.ResponseWriter, r *gldap.Request) {
				note("default-route", r)
				_ = respondOK(w, r)
			})
			_ = mux.Unbind(func(w *gldap.ResponseWriter, r *gldap.Request) {
				note("unbind", r)
			})
			var srv *lab.Server
			srv, err = lab.StartServer(mux, lab.ServerOpts{TLS: srvCfg, OnClose: func(int) { atomic.AddInt64(t.onclose, 1) }})
			if err != nil {
				return
			}
			t.addr = srv.Addr
			cliCfg.ServerName = "localhost"
			t.validCfg = cliCfg
			t.noCertCfg = &tls.Config{RootCAs: cliCfg.RootCAs, ServerName: "localhost"}
		case "dir-mtls":
			var h *dirHandle
			h, err = startDir("mtls")
			if err != nil {
				return
			}
			t.dir = h
			t.mtls = true
			t.addr = h.addr()
			var cert tls.Certificate
			cert, err = tls.X509KeyPair([]byte(h.D.ClientCert()), []byte(h.D.ClientKey()))
			if err != nil {
				return
			}
			t.validCfg = &tls.Config{RootCAs: h.Pool, ServerName: "localhost", Certificates: []tls.Certificate{cert}}
			t.noCertCfg = &tls.Config{RootCAs: h.Pool, ServerName: "localhost"}
		}
	}()
	if err != nil {
		return nil, err
	}
	// a sibling deployment: the repository's generator run a second time
	func() {
		defer func() { _ = recover() }()
		_, sib := testdirectory.GetTLSConfig(lt, testdirectory.WithMTLS(lt))
		if len(sib.Certificates) == 1 {
			t.sibling = &sib.Certificates[0]
		}
	}()
	c18Targets[name] = t
	return t, nil
}

var (
	helloOnce  sync.Once
	helloBytes []byte
)

// clientHello captures the first flight of a real TLS client.
func clientHello() []byte {
	helloOnce.Do(func() {
		a, b := net.Pipe()
		go func() {
			c := tls.Client(a, &tls.Config{InsecureSkipVerify: true, ServerName: "localhost"})
			_ = c.SetDeadline(time.Now().Add(time.Second))
			_ = c.Handshake()
			a.Close()
		}()
		buf := make([]byte, 4096)
		_ = b.SetDeadline(time.Now().Add(time.Second))
		n, _ := b.Read(buf)
		helloBytes = append([]byte{}, buf[:n]...)
		b.Close()
	})
	return helloBytes
}

func c18Request(op string, id int64, dn string) []byte {
	r := simpleReq(op, id)
	if op == "add" || op == "delete" || op == "modify" || op == "bind" {
		r.DN = []byte(dn)
	}
	if op == "add" {
		r.AddAttrs = []wire.Attr{{Type: []byte("name"), Vals: [][]byte{[]byte("offender")}}}
	}
	return r.Bytes()
}

func c18Exec(c c18Case, st *lab.Stats) *lab.Fail {
	tg, err := c18Get(c.Target)
	if err != nil {
		st.Inconclusive(err.Error())
		return nil
	}
	_, alt, err := lab.SharedPKI()
	if err != nil {
		st.Inconclusive(err.Error())
		return nil
	}
	selfSigned, _ := lab.Leaf(nil, nil, "self-signed client")
	type outcome struct {
		handshakeOK bool
		sentRequest bool
		answered    bool
		detail      string
	}
	n := len(c.Offenders)
	outs := make([]outcome, n+c.Bystanders)
	ids := make([]int64, n+c.Bystanders)
	dns := make([]string, n+c.Bystanders)
	var wg sync.WaitGroup
	var floodMu sync.Mutex
	var floodProbes []outcome
	floodExtra := 0
	closesBefore := atomic.LoadInt64(tg.onclose)
	run := func(i int, o c18Offender) {
		defer wg.Done()
		id := atomic.AddInt64(&c18Counter, 1) + 1000
		ids[i] = id
		tg.sent.Store(id, true)
		dns[i] = fmt.Sprintf("cn=c18-%08d,ou=people,dc=example,dc=org", id)
		op := o.Op
		if c.Target == "dir-mtls" {
			op = "add" // the directory's handlers are observed through their effect: the entry must not appear
		}
		req := c18Request(op, id, dns[i])
		var cfg *tls.Config
		switch o.Kind {
		case "silent-flood":
			// many connections that never say anything, held open while a conforming client arrives
			var held []net.Conn
			for k := 0; k < 2*runtime.NumCPU()+8; k++ {
				if cn, err := net.DialTimeout("tcp", tg.addr, 5*time.Second); err == nil {
					held = append(held, cn)
				}
			}
			time.Sleep(20 * time.Millisecond)
			var po outcome
			pid := atomic.AddInt64(&c18Counter, 1) + 1000
			tg.sent.Store(pid, true)
			pdn := fmt.Sprintf("cn=c18-%08d,ou=people,dc=example,dc=org", pid)
			pop := "search"
			if c.Target == "dir-mtls" {
				pop = "add"
			}
			if cl, err := lab.DialTLS(tg.addr, tg.validCfg); err != nil {
				po.detail = "handshake: " + err.Error()
			} else {
				po.handshakeOK = true
				_ = cl.Send(c18Request(pop, pid, pdn))
				if m, err := cl.Next(5 * time.Second); err == nil && m.ID == pid {
					po.answered = true
				} else if err != nil {
					po.detail = "read: " + err.Error()
				}
				cl.Close()
			}
			for _, cn := range held {
				cn.Close()
			}
			floodMu.Lock()
			floodProbes = append(floodProbes, po)
			floodExtra += len(held)
			floodMu.Unlock()
			return
		case "plaintext", "random", "silent", "partial-hello":
			conn, err := net.DialTimeout("tcp", tg.addr, 5*time.Second)
			if err != nil {
				outs[i].detail = "dial: " + err.Error()
				return
			}
			defer conn.Close()
			switch o.Kind {
			case "plaintext":
				_, _ = conn.Write(req)
				outs[i].sentRequest = true
			case "random":
				_, _ = conn.Write(o.Bytes)
			case "partial-hello":
				h := clientHello()
				k := o.Cut
				if k > len(h) {
					k = len(h)
				}
				_, _ = conn.Write(h[:k])
			}
			_ = conn.SetReadDeadline(time.Now().Add(time.Duration(o.HoldMs+50) * time.Millisecond))
			buf := make([]byte, 4096)
			for {
				k, err := conn.Read(buf)
				if k > 0 {
					// anything that parses as an LDAP response means somebody served plaintext
					if nd, _, perr := wire.ParseOne(buf[:k]); perr == nil {
						if m, merr := wire.ParseMessage(nd); merr == nil && m.ID == id {
							outs[i].answered = true
						}
					}
				}
				if err != nil {
					break
				}
			}
			return
		case "tls-then-plaintext":
			// a conforming session that is then shut down at the TLS level (close_notify) while the TCP
			// connection stays open; what follows is plaintext and must not reach a handler
			rawc, err := net.DialTimeout("tcp", tg.addr, 5*time.Second)
			if err != nil {
				outs[i].detail = "dial: " + err.Error()
				return
			}
			defer rawc.Close()
			tc := tls.Client(rawc, tg.validCfg)
			_ = tc.SetDeadline(time.Now().Add(5 * time.Second))
			if err := tc.Handshake(); err != nil {
				outs[i].detail = "handshake: " + err.Error()
				return
			}
			outs[i].handshakeOK = true
			_ = tc.CloseWrite() // sends close_notify, keeps the TCP connection
			// drain the server's own closure alert, if it sends one
			_ = rawc.SetReadDeadline(time.Now().Add(100 * time.Millisecond))
			tmp := make([]byte, 1024)
			_, _ = tc.Read(tmp)
			_ = rawc.SetDeadline(time.Now().Add(500 * time.Millisecond))
			if _, err := rawc.Write(req); err == nil {
				outs[i].sentRequest = true
			}
			for {
				k, err := rawc.Read(tmp)
				if k > 0 {
					if nd, _, perr := wire.ParseOne(tmp[:k]); perr == nil {
						if m, merr := wire.ParseMessage(nd); merr == nil && m.ID == id {
							outs[i].answered = true
						}
					}
				}
				if err != nil {
					break
				}
			}
			return
		case "tls-resume-foreign":
			// a client of ANOTHER deployment (other CA) that first talks to its own server and then
			// offers the session it got there to this server
			other := "dir-mtls"
			if c.Target == "dir-mtls" {
				other = "server-mtls"
			}
			og, err := c18Get(other)
			if err != nil || !tg.mtls {
				outs[i].detail = "no foreign deployment"
				return
			}
			cache := tls.NewLRUClientSessionCache(8)
			own := og.validCfg.Clone()
			own.ClientSessionCache = cache
			if cl, err := lab.DialTLS(og.addr, own); err == nil {
				// one round trip so that the session ticket has been received
				pid := atomic.AddInt64(&c18Counter, 1) + 1000
				og.sent.Store(pid, true)
				pop := "search"
				if other == "dir-mtls" {
					pop = "bind"
				}
				_ = cl.Send(c18Request(pop, pid, "cn=nobody"))
				_, _ = cl.Next(2 * time.Second)
				cl.Close()
			}
			// same client certificate and session cache, but this server's address (its CA is trusted for the server side)
			cfg = &tls.Config{RootCAs: tg.validCfg.RootCAs, ServerName: "localhost", Certificates: og.validCfg.Certificates, ClientSessionCache: cache}
			if cfg.Certificates == nil && og.validCfg.GetClientCertificate != nil {
				cfg.GetClientCertificate = og.validCfg.GetClientCertificate
			}
		case "tls-nocert":
			cfg = tg.noCertCfg
		case "tls-otherca":
			cfg = &tls.Config{RootCAs: tg.validCfg.RootCAs, ServerName: "localhost", GetClientCertificate: forceCert(alt.Client)}
		case "tls-siblingca":
			if tg.sibling == nil {
				outs[i].detail = "no sibling certificate"
				return
			}
			cfg = &tls.Config{RootCAs: tg.validCfg.RootCAs, ServerName: "localhost", GetClientCertificate: forceCert(*tg.sibling)}
		case "tls-selfsigned":
			cfg = &tls.Config{RootCAs: tg.validCfg.RootCAs, ServerName: "localhost", GetClientCertificate: forceCert(selfSigned)}
		case "tls-padded-otherca", "tls-padded-selfsigned":
			// the offender holds the key of its own (foreign) certificate only, and pads the chain it presents with the
			// PUBLIC certificate of a genuine client: possession is proved for the first certificate alone
			own := alt.Client
			if o.Kind == "tls-padded-selfsigned" {
				own = selfSigned
			}
			padded := tls.Certificate{PrivateKey: own.PrivateKey, Certificate: append([][]byte{}, own.Certificate...)}
			var genuine *tls.Certificate
			if len(tg.validCfg.Certificates) > 0 {
				genuine = &tg.validCfg.Certificates[0]
			} else if tg.validCfg.GetClientCertificate != nil {
				genuine, _ = tg.validCfg.GetClientCertificate(&tls.CertificateRequestInfo{})
			}
			if genuine != nil {
				padded.Certificate = append(padded.Certificate, genuine.Certificate...)
			}
			cfg = &tls.Config{RootCAs: tg.validCfg.RootCAs, ServerName: "localhost", GetClientCertificate: forceCert(padded)}
		default: // valid
			cfg = tg.validCfg
		}
		if o.SNI != "" && o.Kind != "valid" && cfg != nil {
			cfg = cfg.Clone()
			cfg.InsecureSkipVerify = true
			cfg.ServerName = o.SNI
			if o.SNI == "nosni" {
				cfg.ServerName = ""
			}
		}
		cl, err := lab.DialTLS(tg.addr, cfg)
		if err != nil {
			outs[i].detail = "handshake: " + err.Error()
			return
		}
		defer cl.Close()
		outs[i].handshakeOK = true
		if err := cl.Send(req); err == nil {
			outs[i].sentRequest = true
		}
		m, err := cl.Next(time.Duration(1500) * time.Millisecond)
		if err == nil && m.ID == id {
			outs[i].answered = true
		} else if err != nil {
			outs[i].detail = "read: " + err.Error()
		}
	}
	for i, o := range c.Offenders {
		wg.Add(1)
		go run(i, o)
	}
	for j := 0; j < c.Bystanders; j++ {
		wg.Add(1)
		go run(n+j, c18Offender{Kind: "valid", Op: "search"})
	}
	wg.Wait()
	// let the server finish tearing the connections down
	if tg.dir == nil {
		deadline := time.Now().Add(3 * time.Second)
		floods := 0
		for _, o := range c.Offenders {
			if o.Kind == "silent-flood" {
				floods++
			}
		}
		for atomic.LoadInt64(tg.onclose)-closesBefore < int64(n-floods+c.Bystanders+floodExtra+len(floodProbes)) && time.Now().Before(deadline) {
			time.Sleep(200 * time.Microsecond)
		}
	} else {
		time.Sleep(20 * time.Millisecond)
	}
	all := append(append([]c18Offender{}, c.Offenders...), make([]c18Offender, c.Bystanders)...)
	for j := 0; j < c.Bystanders; j++ {
		all[n+j] = c18Offender{Kind: "valid", Op: "search"}
	}
	var dirConn *ldap.Conn
	if tg.dir != nil {
		dirConn, err = ldap.DialURL("ldaps://"+tg.addr, ldap.DialWithTLSConfig(tg.validCfg))
		if err != nil {
			return lab.Failf("valid-client-not-served", "%s: the conforming mTLS client cannot connect: %v", c.Target, err)
		}
		defer dirConn.Close()
		dirConn.SetTimeout(10 * time.Second)
	}
	for i, o := range all {
		// is this behaviour allowed to reach a handler under this configuration?
		if o.Kind == "silent-flood" {
			continue // judged through its probe below
		}
		if o.Kind == "tls-resume-foreign" && !tg.mtls {
			continue // without client authentication there is nothing foreign about it
		}
		allowed := o.Kind == "valid" || (!tg.mtls && (o.Kind == "tls-nocert" || o.Kind == "tls-otherca" || o.Kind == "tls-selfsigned" || o.Kind == "tls-siblingca" || o.Kind == "tls-padded-otherca" || o.Kind == "tls-padded-selfsigned"))
		ran := false
		if tg.dir == nil {
			_, ran = tg.entered.Load(ids[i])
		} else {
			res, err := dirConn.Search(&ldap.SearchRequest{BaseDN: dns[i], Scope: ldap.ScopeWholeSubtree, Filter: fmt.Sprintf("(%s)", dns[i])})
			ran = err == nil && res != nil && len(res.Entries) > 0
		}
		st.Case(!allowed && outs[i].sentRequest, lab.JSONKey([]interface{}{c.Target, o}), "target="+c.Target, "offender="+o.Kind, fmt.Sprintf("allowed=%v", allowed), fmt.Sprintf("handshake-ok-clientside=%v", outs[i].handshakeOK), "sni="+o.SNI)
		desc := fmt.Sprintf("%s client #%d kind=%s op=%s (client-side handshake ok=%v, request sent=%v, %s)", c.Target, i, o.Kind, o.Op, outs[i].handshakeOK, outs[i].sentRequest, outs[i].detail)
		if !allowed && (ran || outs[i].answered) {
			return lab.Failf("handler-reached:"+o.Kind, "%s: a handler ran / a response came back for a client that does not satisfy the TLS configuration", desc)
		}
		needAnswer := tg.dir != nil || o.Op != "unbind"
		if allowed && !(ran && (outs[i].answered || !needAnswer)) {
			return lab.Failf("valid-client-not-served", "%s: a conforming client was not served (handler ran=%v, answered=%v)", desc, ran, outs[i].answered)
		}
	}
	// a handler entry that belongs to no message any harness client sent: a handler ran for a connection
	// (here: of an offender, the only clients that do not complete their sessions) without a request of its own
	tg.strayMu.Lock()
	strays := append([]string{}, tg.strays...)
	tg.strays = nil
	tg.strayMu.Unlock()
	if len(strays) > 0 {
		return lab.Failf("handler-reached:unsent-message", "%s with offenders %+v: %d handler invocation(s) for messages that no client sent: %s", c.Target, c.Offenders, len(strays), strings.Join(strays, "; "))
	}
	for _, po := range floodProbes {
		st.Class("flood-probe")
		if !po.answered {
			return lab.Failf("valid-client-not-served:behind-silent-connections", "%s: a conforming client was not served while %d connections that never sent a byte were open (handshake ok=%v, %s): those attempts must end only their own connection", c.Target, 2*runtime.NumCPU()+8, po.handshakeOK, po.detail)
		}
	}
	st.Sample(c)
	return nil
}

var _ = x509.NewCertPool

// forceCert presents the certificate whatever CA list the server announces
// (Go's own client would silently send none when the issuer does not match).
func forceCert(c tls.Certificate) func(*tls.CertificateRequestInfo) (*tls.Certificate, error) {
	return func(*tls.CertificateRequestInfo) (*tls.Certificate, error) { return &c, nil }
}

func TestC18(t *testing.T) {
	ops := []string{"bind", "search", "modify", "add", "delete", "extended", "unbind"}
	kinds := []string{"plaintext", "plaintext", "random", "silent", "partial-hello", "tls-nocert", "tls-otherca", "tls-siblingca", "tls-selfsigned", "valid",
		"plaintext", "random", "silent", "partial-hello", "tls-nocert", "tls-otherca", "tls-siblingca", "tls-selfsigned", "valid", "silent-flood",
		"tls-then-plaintext", "tls-then-plaintext", "tls-resume-foreign", "tls-resume-foreign", "tls-padded-otherca", "tls-padded-otherca", "tls-padded-selfsigned"}
	lab.Prop[c18Case]{
		ID: "C18", Part: "tls-gate",
		Rule: "rapid: targets = gldap.Server with the repository's own GetTLSConfig (server-auth only / WithMTLS) and a testdirectory.Directory started WithMTLS; 1..6 concurrent offenders per case = plaintext request of each of the 7 operations, random bytes, connect-and-stay-silent, partial ClientHello cut at a generated offset, TLS client without certificate, with a certificate of another CA, of a sibling deployment made by the same generator (same subject and serial, different CA key), self-signed, a foreign or self-signed certificate (whose key the offender holds) padded with the PUBLIC certificate of a genuine client (each of these TLS offenders with the deployment's host name, no SNI at all or a foreign / case-variant server name), a flood of 2*NumCPU+8 silent connections held open while a conforming client arrives, a conforming session that sends close_notify and continues in plaintext on the same TCP connection, a client of another mTLS deployment in the same process that offers the TLS session it resumed from there, plus the valid client, alongside 1..4 conforming bystanders; oracle = no handler entry (plain servers: recording handler keyed by reserved message IDs; directory: the Add the offender sent has no effect visible to a conforming client) and no response for offenders, no handler entry at all for a message that no client sent (e.g. an unbind handler run on behalf of a connection that never completed its handshake), bystanders and valid clients served; non-trivial = an offender that got as far as sending an LDAP request; distinct by hash of (target, offender)",
		Gen: func(t *rapid.T) c18Case {
			c := c18Case{
				Target:     rapid.SampledFrom([]string{"server-tls", "server-mtls", "server-mtls", "dir-mtls", "dir-mtls"}).Draw(t, "target"),
				Bystanders: rapid.IntRange(1, 4).Draw(t, "bystanders"),
			}
			n := rapid.IntRange(1, 6).Draw(t, "noffenders")
			for i := 0; i < n; i++ {
				o := c18Offender{
					Kind:   rapid.SampledFrom(kinds).Draw(t, "kind"),
					Op:     rapid.SampledFrom(ops).Draw(t, "op"),
					HoldMs: rapid.SampledFrom([]int{0, 5, 30}).Draw(t, "hold"),
					Cut:    rapid.IntRange(1, 300).Draw(t, "cut"),
				}
				if o.Kind == "random" {
					o.Bytes = rapid.SliceOfN(rapid.Byte(), 1, 64).Draw(t, "bytes")
				}
				if strings.HasPrefix(o.Kind, "tls-") && o.Kind != "tls-then-plaintext" && rapid.Bool().Draw(t, "othersni") {
					o.SNI = rapid.SampledFrom([]string{"nosni", "ldap.example.org", "LOCALHOST", "localhost.", "example.com", "x", "127.0.0.1.nip.io"}).Draw(t, "sni")
				}
				c.Offenders = append(c.Offenders, o)
			}
			return c
		},
		Exec: c18Exec,
	}.Run(t)
}
