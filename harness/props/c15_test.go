package props

import (
	"fmt"
	"sync"
	"sync/atomic"
	"testing"
	"time"

	"github.com/go-ldap/ldap/v3"
	"github.com/jimlambrt/gldap"
	"pgregory.net/rapid"

	"verifharness/lab"
)

// C15's oracle is the Go race detector: these workloads are run by the -race
// build of the harness and the driver attributes every report whose two
// stacks both have their first non-stdlib frame inside gldap.

type c15DirCase struct {
	Clients    int      `json:"clients"`
	Rounds     int      `json:"rounds"`
	ClientOps  []string `json:"client_ops"` // per round and client: bind search-users search-groups search-dn add modify delete
	SetterOps  []string `json:"setter_ops"` // executed by the configuration goroutine, in a loop, while clients run
	Transports []string `json:"transports"`
}

func c15Users(gen int) []*gldap.Entry {
	var out []*gldap.Entry
	for i := 0; i < 4; i++ {
		out = append(out, gldap.NewEntry(c20UserDN(i), map[string][]string{"name": {fmt.Sprintf("u%02d", i)}, "password": {"pw"}, "gen": {fmt.Sprint(gen)}}))
	}
	return out
}

func c15Groups(gen int) []*gldap.Entry {
	var out []*gldap.Entry
	for i := 0; i < 3; i++ {
		out = append(out, gldap.NewEntry(c20GroupDN(i), map[string][]string{"member": {c20UserDN(i)}, "gen": {fmt.Sprint(gen)}}))
	}
	return out
}

func c15DirExec(c c15DirCase, st *lab.Stats) *lab.Fail {
	handles := map[string]*dirHandle{}
	for _, tr := range c.Transports {
		h, err := sharedDir(dirFor(tr))
		if err != nil {
			st.Inconclusive(err.Error())
			return nil
		}
		handles[tr] = h
		h.D.SetUsers(c15Users(0)...)
		h.D.SetGroups(c15Groups(0)...)
		h.D.SetAllowAnonymousBind(true)
	}
	var requests int64
	var overlapped int64
	var settersRunning int32
	stop := make(chan struct{})
	var wg sync.WaitGroup
	// the configuration goroutine: every Set* method and getter
	for _, h := range handles {
		wg.Add(1)
		go func(h *dirHandle) {
			defer wg.Done()
			gen := 0
			for {
				select {
				case <-stop:
					return
				default:
				}
				atomic.StoreInt32(&settersRunning, 1)
				for _, op := range c.SetterOps {
					gen++
					switch op {
					case "setusers":
						h.D.SetUsers(c15Users(gen)...)
					case "setgroups":
						h.D.SetGroups(c15Groups(gen)...)
					case "setcontrols":
						if gen%2 == 0 {
							p, _ := gldap.NewControlPaging(uint32(gen))
							h.D.SetControls(p)
						} else {
							h.D.SetControls()
						}
					case "settokengroups":
						h.D.SetTokenGroups(map[string][]*gldap.Entry{"S-1-1": c15Groups(gen)})
					case "setanon":
						h.D.SetAllowAnonymousBind(gen%3 != 0)
					case "getters":
						_ = h.D.Users()
						_ = h.D.Groups()
						_ = h.D.Controls()
						_ = h.D.TokenGroups()
						_ = h.D.AllowAnonymousBind()
						_ = h.D.Port()
					}
				}
				time.Sleep(50 * time.Microsecond)
			}
		}(h)
	}
	var cwg sync.WaitGroup
	var fail atomic.Value
	for ci := 0; ci < c.Clients; ci++ {
		cwg.Add(1)
		go func(ci int) {
			defer cwg.Done()
			tr := c.Transports[ci%len(c.Transports)]
			h := handles[tr]
			conn, err := h.dial(tr)
			if err != nil {
				fail.Store("dial " + tr + ": " + err.Error())
				return
			}
			defer conn.Close()
			conn.SetTimeout(20 * time.Second)
			for r := 0; r < c.Rounds; r++ {
				op := c.ClientOps[(r*c.Clients+ci)%len(c.ClientOps)]
				dn := c20UserDN((ci + r) % 6)
				switch op {
				case "bind":
					_, _ = conn.SimpleBind(&ldap.SimpleBindRequest{Username: c20UserDN(ci % 4), Password: "pw", AllowEmptyPassword: true})
				case "bind-anon":
					_, _ = conn.SimpleBind(&ldap.SimpleBindRequest{Username: "", Password: "", AllowEmptyPassword: true})
				case "bind-wrong":
					_, _ = conn.SimpleBind(&ldap.SimpleBindRequest{Username: c20UserDN(ci % 4), Password: "nope", AllowEmptyPassword: true})
				case "search-users":
					_, _ = conn.Search(&ldap.SearchRequest{BaseDN: c20UserBase, Scope: ldap.ScopeWholeSubtree, Filter: "(cn=u01)"})
				case "search-groups":
					_, _ = conn.Search(&ldap.SearchRequest{BaseDN: c20GroupBase, Scope: ldap.ScopeWholeSubtree, Filter: "(cn=g01)"})
				case "search-dn":
					_, _ = conn.Search(&ldap.SearchRequest{BaseDN: dn, Scope: ldap.ScopeWholeSubtree, Filter: fmt.Sprintf("(%s)", dn)})
				case "search-sid":
					_, _ = conn.Search(&ldap.SearchRequest{BaseDN: "<SID=S-1-1>", Scope: ldap.ScopeBaseObject, Filter: "(objectClass=*)"})
				case "add":
					ar := ldap.NewAddRequest(dn, nil)
					ar.Attribute("name", []string{"x"})
					_ = conn.Add(ar)
				case "modify":
					mr := ldap.NewModifyRequest(dn, nil)
					mr.Replace("name", []string{fmt.Sprint(r)})
					mr.Add("description", []string{"d"})
					_ = conn.Modify(mr)
				case "delete":
					_ = conn.Del(ldap.NewDelRequest(dn, nil))
				}
				atomic.AddInt64(&requests, 1)
				if atomic.LoadInt32(&settersRunning) == 1 {
					atomic.AddInt64(&overlapped, 1)
				}
			}
		}(ci)
	}
	clientsDone := make(chan struct{})
	go func() { cwg.Wait(); close(clientsDone) }()
	select {
	case <-clientsDone:
	case <-time.After(150 * time.Second):
		// never hang the whole shard: report what is stuck and give up on this case
		close(stop)
		st.Inconclusive("directory workload stuck for 150 s; goroutines with gldap frames:\n" + lab.Describe(lab.GldapGoroutines(), 14))
		return nil
	}
	close(stop)
	wg.Wait()
	if v := fail.Load(); v != nil {
		st.Inconclusive(v.(string))
		return nil
	}
	st.Case(atomic.LoadInt64(&overlapped) > 0 && c.Clients >= 2, lab.JSONKey(c), fmt.Sprintf("clients=%d", c.Clients), fmt.Sprintf("transports=%d", len(c.Transports)))
	for _, op := range c.SetterOps {
		st.Class("setter=" + op)
	}
	for _, op := range c.ClientOps {
		st.Class("clientop=" + op)
	}
	st.AddExtra("directory_requests_while_setters_ran", atomic.LoadInt64(&overlapped))
	st.Sample(c)
	return nil
}

func TestC15Directory(t *testing.T) {
	lab.Prop[c15DirCase]{
		ID: "C15", Part: "directory",
		Rule: "rapid workloads on running test directories (plain / TLS / StartTLS): 2..8 go-ldap clients issue generated mixes of bind, user/group/DN/SID searches, add, modify, delete while another goroutine calls every Set* method and getter in a loop; oracle = Go race detector (a report counts when the first non-stdlib frame of BOTH stacks is in github.com/jimlambrt/gldap/...); the harness builds fresh entries for every Set* call and never touches them again nor anything a getter returned; non-trivial = >= 2 clients and requests completed while the configuration goroutine was running (measured); distinct by hash",
		Gen: func(t *rapid.T) c15DirCase {
			return c15DirCase{
				Clients:    rapid.IntRange(2, 8).Draw(t, "clients"),
				Rounds:     rapid.IntRange(5, 40).Draw(t, "rounds"),
				ClientOps:  rapid.SliceOfN(rapid.SampledFrom([]string{"bind", "bind-anon", "bind-wrong", "search-users", "search-groups", "search-dn", "search-sid", "add", "modify", "delete"}), 3, 12).Draw(t, "clientops"),
				SetterOps:  rapid.SliceOfN(rapid.SampledFrom([]string{"setusers", "setgroups", "setcontrols", "settokengroups", "setanon", "getters"}), 1, 6).Draw(t, "setterops"),
				Transports: rapid.SliceOfN(rapid.SampledFrom([]string{"plain", "tls", "starttls"}), 1, 3).Draw(t, "transports"),
			}
		},
		Exec: c15DirExec,
	}.Run(t)
}

// ---- Stop called from a goroutine that is causally independent of the traffic ----

type c15StopCase struct {
	Transports []string `json:"transports"` // one connection each: plain tls starttls
	Requests   int      `json:"requests"`
	StopAfter  int      `json:"stop_after_ms"`
	Blocked    bool     `json:"blocked"` // one handler per connection is still running when Stop comes
}

// c15StopExec: the goroutine that calls Stop is started BEFORE any client
// connects and only sleeps, so that no happens-before edge leads from the
// clients' traffic (StartTLS upgrades, requests) to the Stop call - the race
// detector then sees unsynchronised accesses between the Stop path and the
// connections' state that an in-order test would hide.
func c15StopExec(c c15StopCase, st *lab.Stats) *lab.Fail {
	main, _, err := lab.SharedPKI()
	if err != nil {
		st.Inconclusive(err.Error())
		return nil
	}
	g := newGate()
	defer g.open()
	h := func(w *gldap.ResponseWriter, r *gldap.Request) {
		_, id, _ := gldap.VerifMessageInfo(r)
		if c.Blocked && int(id%tagStride) == 999 {
			g.wait(2 * time.Second)
		}
		_ = respondOK(w, r)
	}
	newMux := func() *gldap.Mux {
		mux, _ := gldap.NewMux()
		_ = mux.DefaultRoute(h)
		_ = mux.ExtendedOperation(lab.StartTLSHandler(main.ServerTLS()), gldap.ExtendedOperationStartTLS)
		return mux
	}
	plain, err := lab.StartServer(newMux(), lab.ServerOpts{OnClose: func(int) {}})
	if err != nil {
		st.Inconclusive(err.Error())
		return nil
	}
	tlsSrv, err := lab.StartServer(newMux(), lab.ServerOpts{TLS: main.ServerTLS()})
	if err != nil {
		_ = plain.Stop(10 * time.Second)
		st.Inconclusive(err.Error())
		return nil
	}
	stopped := make(chan struct{})
	go func() {
		time.Sleep(time.Duration(c.StopAfter) * time.Millisecond)
		_ = plain.S.Stop()
		_ = tlsSrv.S.Stop()
		close(stopped)
	}()
	var wg sync.WaitGroup
	for tag, tr := range c.Transports {
		wg.Add(1)
		go func(tag int, tr string) {
			defer wg.Done()
			addr := plain.Addr
			if tr == "tls" {
				addr = tlsSrv.Addr
			}
			cl, err := lab.Connect(addr, tr, main.ClientTLS(false))
			if err != nil {
				return
			}
			defer cl.Close()
			base := int64(tag) * tagStride
			for i := 0; i < c.Requests; i++ {
				_ = cl.Send(simpleReq("search", base+int64(i)+1).Bytes())
				if _, err := cl.Next(5 * time.Second); err != nil {
					return
				}
			}
			_ = cl.Send(simpleReq("search", base+999).Bytes())
			_, _, _ = readUntilClosed(cl, 5*time.Second) // the server ends the connection when it is stopped
		}(tag, tr)
	}
	select {
	case <-stopped:
	case <-time.After(20 * time.Second):
		g.open()
		st.Inconclusive("Stop did not return in 20 s")
	}
	g.open()
	wg.Wait()
	nt := false
	for _, tr := range c.Transports {
		st.Class("transport=" + tr)
		if tr == "starttls" {
			nt = true
		}
	}
	st.Case(nt || len(c.Transports) >= 2, lab.JSONKey(c), fmt.Sprintf("blocked=%v", c.Blocked))
	st.Sample(c)
	return nil
}

func TestC15StopIndependent(t *testing.T) {
	lab.Prop[c15StopCase]{
		ID: "C15", Part: "stop-independent",
		Rule: "rapid: 1..6 connections (plain / TLS / StartTLS-upgraded) exchange 0..5 requests and stay open, optionally with a handler still running, while a goroutine that was started BEFORE any client connected and only slept calls Stop (no happens-before edge from the traffic to the Stop call); oracle = Go race detector as for the other C15 parts; non-trivial = a StartTLS-upgraded connection or >= 2 connections open at Stop; distinct by hash",
		Gen: func(t *rapid.T) c15StopCase {
			return c15StopCase{
				Transports: rapid.SliceOfN(rapid.SampledFrom([]string{"plain", "tls", "starttls", "starttls"}), 1, 6).Draw(t, "transports"),
				Requests:   rapid.IntRange(0, 5).Draw(t, "requests"),
				StopAfter:  rapid.SampledFrom([]int{30, 60, 120}).Draw(t, "stopafter"),
				Blocked:    rapid.Bool().Draw(t, "blocked"),
			}
		},
		Exec: c15StopExec,
	}.Run(t)
}
