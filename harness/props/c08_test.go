package props

import (
	"crypto/tls"
	"fmt"
	"net"
	"runtime"
	"runtime/debug"
	"sync"
	"testing"
	"time"

	"github.com/jimlambrt/gldap"
	"pgregory.net/rapid"

	"verifharness/lab"
	"verifharness/wire"
)

type c08Conn struct {
	Ending    string `json:"ending"`    // fin rst unbind malformed unsupported midframe panic-unbind
	InFlight  string `json:"in_flight"` // none blocked writing
	K         int    `json:"k"`
	Transport string `json:"transport"`
	// Pipelined: the in-flight requests and the ending (unbind / malformed /
	// unsupported / fin) leave in ONE write, so the connection ends while the
	// handlers have only just been dispatched.
	Pipelined bool `json:"pipelined,omitempty"`
	// Stall (mode stop, in-flight writing): the client also sends an Unbind
	// behind its requests and then reads NOTHING until well after Stop was
	// called: the read loop has ended, handlers are parked in Write.
	Stall bool `json:"stall,omitempty"`
	// PanicOne: together with the in-flight requests one more request is sent whose handler panics at once
	// (recovered by the server) while the others are still running: a recovered panic in one handler must not
	// end the connection under the feet of the others
	PanicOne bool `json:"panic_one,omitempty"`
}

type c08Case struct {
	Mode        string    `json:"mode"` // normal readtimeout stop
	Conns       []c08Conn `json:"conns"`
	GateDelayMs int       `json:"gate_delay_ms"`
}

var c08Endings = []string{"fin", "rst", "unbind", "malformed", "unsupported", "midframe", "panic-unbind"}

func serverInitiated(mode, ending string) bool {
	if mode != "normal" {
		return true
	}
	switch ending {
	case "unbind", "malformed", "unsupported", "panic-unbind":
		return true
	}
	return false
}

func rawConn(c net.Conn) net.Conn {
	if tc, ok := c.(*tls.Conn); ok {
		return tc.NetConn()
	}
	return c
}

func c08Exec(c c08Case, st *lab.Stats) *lab.Fail {
	main, _, err := lab.SharedPKI()
	if err != nil {
		st.Inconclusive(err.Error())
		return nil
	}
	log := &evLog{}
	g := newGate()
	defer g.open()
	// a socket the server forgot to close would be closed by the garbage
	// collector's finalizer sooner or later: keep the collector out of the
	// way until the descriptor census at the end has been taken
	// ... but with a ceiling: gldap/asn1-ber allocate about ten times the bytes they encode, and handlers writing
	// megabytes on dozens of connections would otherwise pile up gigabytes per process. With the percentage off
	// the collector only runs when the heap approaches the limit, i.e. never in the ordinary (small) scenarios.
	defer func(old int, lim int64) { debug.SetGCPercent(old); debug.SetMemoryLimit(lim); runtime.GC() }(debug.SetGCPercent(-1), debug.SetMemoryLimit(768<<20))
	var mu sync.Mutex
	connIDOfTag := map[int]int{}
	idMismatch := ""
	enteredInflight := map[int]int{}
	bigPayload := string(make([]byte, 16<<10))
	// ConnectionIDs are unique per server: two servers (plain, TLS) are told apart by srvBase
	mkHandler := func(srvBase int) gldap.HandlerFunc {
		return func(w *gldap.ResponseWriter, r *gldap.Request) {
			kind, id, _ := gldap.VerifMessageInfo(r)
			tag, n := tagOf(id), int(id%tagStride)
			cid := srvBase + r.ConnectionID()
			log.add(event{Kind: "enter", Tag: tag, ConnID: cid, MsgID: id, Label: kind})
			mu.Lock()
			if prev, ok := connIDOfTag[tag]; ok && prev != cid {
				idMismatch = fmt.Sprintf("client connection %d reported ConnectionID %d and %d", tag, prev-srvBase, r.ConnectionID())
			}
			connIDOfTag[tag] = cid
			inflight := ""
			if tag < len(c.Conns) {
				inflight = c.Conns[tag].InFlight
			}
			if n >= 10 && n < 90 {
				enteredInflight[tag]++
			}
			mu.Unlock()
			defer func() {
				log.add(event{Kind: "exit", Tag: tag, ConnID: cid, MsgID: id, Label: kind})
			}()
			switch {
			case kind == "unbind":
				if tag < len(c.Conns) && c.Conns[tag].Ending == "panic-unbind" {
					panic("c08: unbind handler panics") // the deferred exit event still fires first
				}
			case n == 91:
				panic("c08: one handler of the connection panics while others are running")
			case n >= 10 && n < 90 && inflight == "blocked":
				g.wait(30 * time.Second)
				_ = respondOK(w, r)
			case n >= 10 && n < 90 && inflight == "writing":
				for i := 0; i < 200; i++ {
					e := r.NewSearchResponseEntry(fmt.Sprintf("cn=%d", i))
					e.AddAttribute("p", []string{bigPayload})
					if err := w.Write(e); err != nil {
						break
					}
				}
				g.wait(30 * time.Second)
				_ = respondOK(w, r)
			default:
				_ = respondOK(w, r)
			}
		}
	}
	onclose := make(chan int, 256)
	baseGor := len(connGoroutines())
	newServer := func(tlsCfg *tls.Config) (*lab.Server, error) {
		srvBase := 0
		if tlsCfg != nil {
			srvBase = 500000
		}
		mux, _ := gldap.NewMux()
		_ = mux.DefaultRoute(mkHandler(srvBase))
		_ = mux.Unbind(mkHandler(srvBase))
		_ = mux.ExtendedOperation(lab.StartTLSHandler(main.ServerTLS()), gldap.ExtendedOperationStartTLS)
		o := lab.ServerOpts{TLS: tlsCfg, OnClose: func(id int) {
			log.add(event{Kind: "onclose", ConnID: srvBase + id})
			onclose <- id
		}}
		if c.Mode == "readtimeout" {
			o.ReadTimeout = 400 * time.Millisecond
		}
		if c.Mode == "writetimeout" {
			o.WriteTimeout = 500 * time.Millisecond
		}
		return lab.StartServer(mux, o)
	}
	// one plain server (plain + starttls clients) and one TLS server when needed
	var plainSrv, tlsSrv *lab.Server
	for _, cs := range c.Conns {
		if cs.Transport == "tls" && tlsSrv == nil {
			if tlsSrv, err = newServer(main.ServerTLS()); err != nil {
				st.Inconclusive(err.Error())
				return nil
			}
		}
		if cs.Transport != "tls" && plainSrv == nil {
			if plainSrv, err = newServer(nil); err != nil {
				st.Inconclusive(err.Error())
				return nil
			}
		}
	}
	// both servers are stopped at the same time: stopping them one after the other would make
	// the second server's connections wait for however long the first one's clients need
	stopAll := func() {
		var swg sync.WaitGroup
		for _, s := range []*lab.Server{plainSrv, tlsSrv} {
			if s != nil {
				swg.Add(1)
				go func(s *lab.Server) { defer swg.Done(); _ = s.Stop(30 * time.Second) }(s)
			}
		}
		swg.Wait()
	}
	baseFD := socketFDs()
	clients := make([]*lab.Client, len(c.Conns))
	defer func() {
		for _, cl := range clients {
			if cl != nil {
				rawConn(cl.C).Close()
			}
		}
	}()
	inflightTotal := 0
	for tag, cs := range c.Conns {
		addr := ""
		if cs.Transport == "tls" {
			addr = tlsSrv.Addr
		} else {
			addr = plainSrv.Addr
		}
		cl, err := lab.Connect(addr, cs.Transport, main.ClientTLS(false))
		if err != nil {
			stopAll()
			return lab.Failf("connect:"+cs.Transport, "cannot establish a %s session: %v", cs.Transport, err)
		}
		clients[tag] = cl
		base := int64(tag) * tagStride
		_ = cl.Send(simpleReq("bind", base+1).Bytes())
		if m, err := cl.Next(10 * time.Second); err != nil || m.ID != base+1 {
			stopAll()
			if c.Mode == "readtimeout" || c.Mode == "writetimeout" {
				// the server-side deadline (counted from accept) beat a slow machine
				st.Inconclusive(fmt.Sprintf("%s mode: first request not answered before the deadline: %v", c.Mode, err))
				return nil
			}
			return lab.Failf("hello-unanswered", "first request on a fresh %s connection was not answered: %v", cs.Transport, err)
		}
		if cs.InFlight != "none" {
			var buf []byte
			for j := 0; j < cs.K; j++ {
				buf = append(buf, simpleReq("search", base+10+int64(j)).Bytes()...)
				if !(cs.Pipelined && c.Mode == "normal") {
					inflightTotal++
				}
			}
			if cs.PanicOne {
				buf = append(buf, simpleReq("search", base+91).Bytes()...)
			}
			if cs.Pipelined && c.Mode == "normal" {
				buf = append(buf, endingBytes(cs.Ending, base)...)
			}
			if cs.Stall && c.Mode == "stop" && cs.InFlight == "writing" {
				buf = append(buf, simpleReq("unbind", base+99).Bytes()...)
			}
			_ = cl.Send(buf)
		}
	}
	// wait until every in-flight handler runs
	deadline := time.Now().Add(10 * time.Second)
	for {
		mu.Lock()
		n := 0
		for _, v := range enteredInflight {
			n += v
		}
		mu.Unlock()
		if n >= inflightTotal {
			break
		}
		if time.Now().After(deadline) {
			if c.Mode == "readtimeout" || c.Mode == "writetimeout" {
				break // the deadline may have fired first; fine
			}
			stopAll()
			st.Inconclusive("in-flight handlers did not start")
			return nil
		}
		time.Sleep(200 * time.Microsecond)
	}
	nt := false
	for _, cs := range c.Conns {
		st.Class("ending="+endingName(c.Mode, cs.Ending), "inflight="+cs.InFlight, "transport="+cs.Transport)
		if cs.PanicOne && cs.InFlight != "none" {
			st.Class("one-handler-panics-while-others-run")
		}
		if cs.InFlight != "none" {
			nt = true
		}
	}
	st.Case(nt, lab.JSONKey(c), "mode="+c.Mode, fmt.Sprintf("conns<=%d", bucket(len(c.Conns))))
	st.Sample(c)
	// trigger the endings
	type endInfo struct {
		how string
		seq int64
	}
	ends := make([]endInfo, len(c.Conns))
	var wg sync.WaitGroup
	var stalledNotClosed []int
	var stopDone chan struct{}
	if c.Mode == "stop" {
		stopDone = make(chan struct{})
		go func() { stopAll(); close(stopDone) }()
		time.Sleep(2 * time.Millisecond)
	}
	for tag, cs := range c.Conns {
		wg.Add(1)
		go func(tag int, cs c08Conn) {
			defer wg.Done()
			cl := clients[tag]
			base := int64(tag) * tagStride
			pipelined := cs.Pipelined && c.Mode == "normal" && cs.InFlight != "none"
			switch {
			case c.Mode == "readtimeout":
				// do nothing: the server's read deadline ends the connection
			case c.Mode == "writetimeout":
				// the write deadline (set once at accept) has passed: the gated
				// handlers' responses fail; then the client says goodbye
				time.Sleep(time.Duration(c.GateDelayMs+700) * time.Millisecond)
				_ = cl.Send(simpleReq("unbind", base+99).Bytes())
			case pipelined && (cs.Ending == "unbind" || cs.Ending == "panic-unbind" || cs.Ending == "malformed" || cs.Ending == "unsupported"):
				// already sent together with the in-flight requests
			case pipelined && (cs.Ending == "fin" || cs.Ending == "midframe"):
				_ = rawConn(cl.C).Close()
				ends[tag] = endInfo{"client-closed", lab.NextSeq()}
				return
			case c.Mode == "stop" && cs.Stall && cs.InFlight == "writing":
				// said goodbye already and reads NOTHING: only the server's own shutdown
				// handling can free the handlers that are parked in Write. The server must
				// finish this connection (OnClose) by itself within the bound.
				mu.Lock()
				myID, known := connIDOfTag[tag]
				mu.Unlock()
				deadline := time.Now().Add(10 * time.Second)
				finished := false
				for known && !finished && time.Now().Before(deadline) {
					for _, e := range log.snapshot() {
						if e.Kind == "onclose" && e.ConnID == myID {
							finished = true
						}
					}
					if !finished {
						time.Sleep(5 * time.Millisecond)
					}
				}
				if known && !finished {
					mu.Lock()
					stalledNotClosed = append(stalledNotClosed, tag)
					mu.Unlock()
				}
			case c.Mode == "stop":
				// the read loop notices the shutdown only between requests: keep
				// sending one more request until the server ends the connection
				// (whether Stop had already cancelled when the first one arrived
				// is not observable from here)
				stopSending := make(chan struct{})
				defer close(stopSending)
				go func() {
					for i := 0; i < 2000; i++ {
						if cl.Send(simpleReq("delete", base+98).Bytes()) != nil {
							return
						}
						select {
						case <-stopSending:
							return
						case <-time.After(10 * time.Millisecond):
						}
					}
				}()
			case cs.Ending == "fin":
				_ = rawConn(cl.C).Close()
				ends[tag] = endInfo{"client-closed", lab.NextSeq()}
				return
			case cs.Ending == "rst":
				rst(rawConn(cl.C))
				ends[tag] = endInfo{"client-reset", lab.NextSeq()}
				return
			case cs.Ending == "midframe":
				b := simpleReq("search", base+97).Bytes()
				_ = cl.Send(b[:len(b)/2])
				time.Sleep(time.Millisecond)
				_ = rawConn(cl.C).Close()
				ends[tag] = endInfo{"client-closed", lab.NextSeq()}
				return
			case cs.Ending == "unbind" || cs.Ending == "panic-unbind":
				_ = cl.Send(simpleReq("unbind", base+99).Bytes())
			case cs.Ending == "malformed":
				_ = cl.Send([]byte{0x30, 0x05, 0x02, 0x01, 0x01, 0x04, 0x00})
			case cs.Ending == "unsupported":
				_ = cl.Send(ReqSpec{Req: wire.Req{Kind: "raw", MsgID: base + 96, RawTag: wire.AppCompareRequest, RawConstructed: true,
					RawContent: append(wire.Str("cn=x").Bytes(), wire.Seq(wire.Str("cn"), wire.Str("x")).Bytes()...)}}.Bytes())
			}
			how, seq := drainUntilClosed(cl, 20*time.Second)
			ends[tag] = endInfo{how, seq}
		}(tag, cs)
	}
	go func() {
		d := time.Duration(c.GateDelayMs) * time.Millisecond
		if c.Mode == "writetimeout" {
			d += 600 * time.Millisecond // after the write deadline has certainly passed
		}
		time.Sleep(d)
		g.open()
	}()
	wg.Wait()
	// every connection is reported through OnClose
	want := len(c.Conns)
	got := 0
	timeout := time.After(15 * time.Second)
collect:
	for got < want {
		select {
		case <-onclose:
			got++
		case <-timeout:
			break collect
		}
	}
	if c.Mode == "stop" {
		select {
		case <-stopDone:
		case <-time.After(15 * time.Second):
		}
	} else {
		stopAll()
	}
	time.Sleep(2 * time.Millisecond) // a duplicate OnClose would come right after the first
	mu.Lock()
	stalled := append([]int{}, stalledNotClosed...)
	mu.Unlock()
	if len(stalled) > 0 {
		tag := stalled[0]
		return lab.Failf("stalled-connection-not-closed-at-stop", "connection %d (%s): its read loop had ended (Unbind), %d handlers were parked writing to a client that reads nothing, Stop was called - and 10 s later the server still had not closed the connection / called OnClose (it only did once the client went away)", tag, c.Conns[tag].Transport, c.Conns[tag].K)
	}
	evs := log.snapshot()
	mu.Lock()
	ids := map[int]int{}
	for k, v := range connIDOfTag {
		ids[k] = v
	}
	mism := idMismatch
	mu.Unlock()
	if mism != "" {
		return lab.Failf("connection-id-unstable", "%s", mism)
	}
	for tag, cs := range c.Conns {
		desc := fmt.Sprintf("connection %d (%s, ending %s, in-flight %s x%d, mode %s)", tag, cs.Transport, cs.Ending, cs.InFlight, cs.K, c.Mode)
		id, ok := ids[tag]
		if !ok {
			return lab.Failf("hello-not-recorded", "%s: no handler observation", desc)
		}
		var closes []int64
		var lastExit int64
		enters, exits := 0, 0
		for _, e := range evs {
			switch {
			case e.Kind == "onclose" && e.ConnID == id:
				closes = append(closes, e.Seq)
			case e.Kind == "exit" && e.Tag == tag:
				exits++
				if e.Seq > lastExit {
					lastExit = e.Seq
				}
			case e.Kind == "enter" && e.Tag == tag:
				enters++
			}
		}
		if len(closes) == 0 {
			return lab.Failf("onclose-missing:"+endingName(c.Mode, cs.Ending), "%s: OnClose was never called with its ConnectionID %d (client side ended with %q)", desc, id, ends[tag].how)
		}
		if len(closes) > 1 {
			return lab.Failf("onclose-twice:"+endingName(c.Mode, cs.Ending), "%s: OnClose was called %d times with ConnectionID %d", desc, len(closes), id)
		}
		if enters != exits {
			return lab.Failf("handler-still-running", "%s: %d handlers entered but only %d returned by the time OnClose had been called", desc, enters, exits)
		}
		if closes[0] < lastExit {
			return lab.Failf("onclose-before-handlers-finished", "%s: OnClose (seq %d) ran before its last handler returned (seq %d)", desc, closes[0], lastExit)
		}
		if serverInitiated(c.Mode, cs.Ending) {
			if ends[tag].how == "timeout" {
				return lab.Failf("socket-not-closed:"+endingName(c.Mode, cs.Ending), "%s: the server never closed the socket", desc)
			}
			if ends[tag].seq < lastExit {
				return lab.Failf("closed-before-handlers-finished", "%s: the client saw the close (seq %d, %s) before the last handler returned (seq %d)", desc, ends[tag].seq, ends[tag].how, lastExit)
			}
		}
	}
	n := 0
	for _, e := range evs {
		if e.Kind == "onclose" {
			n++
		}
	}
	if n != len(c.Conns) {
		return lab.Failf("onclose-count", "%d OnClose calls for %d connections", n, len(c.Conns))
	}
	// nothing of the connections remains
	for _, cl := range clients {
		rawConn(cl.C).Close()
	}
	var gs []lab.GoroutineInfo
	dl := time.Now().Add(5 * time.Second)
	for {
		gs = connGoroutines()
		fds := socketFDs()
		if len(gs) <= baseGor && fds <= baseFD-countServers(plainSrv, tlsSrv) {
			break
		}
		if time.Now().After(dl) {
			if len(gs) > baseGor {
				return lab.Failf("goroutine-leak", "%d connection goroutines remain after every connection ended and the server stopped:\n%s", len(gs)-baseGor, lab.Describe(gs, 8))
			}
			return lab.Failf("fd-leak", "%d socket descriptors remain (baseline %d incl. listeners) after every connection ended", fds, baseFD)
		}
		time.Sleep(5 * time.Millisecond)
	}
	return nil
}

// endingBytes returns what a server-initiated ending sends.
func endingBytes(ending string, base int64) []byte {
	switch ending {
	case "unbind", "panic-unbind":
		return simpleReq("unbind", base+99).Bytes()
	case "malformed":
		return []byte{0x30, 0x05, 0x02, 0x01, 0x01, 0x04, 0x00}
	case "unsupported":
		return ReqSpec{Req: wire.Req{Kind: "raw", MsgID: base + 96, RawTag: wire.AppCompareRequest, RawConstructed: true,
			RawContent: append(wire.Str("cn=x").Bytes(), wire.Seq(wire.Str("cn"), wire.Str("x")).Bytes()...)}}.Bytes()
	}
	return nil
}

func countServers(s ...*lab.Server) int {
	n := 0
	for _, x := range s {
		if x != nil {
			n++
		}
	}
	return n
}

func endingName(mode, ending string) string {
	if mode != "normal" {
		return mode
	}
	return ending
}

func TestC08(t *testing.T) {
	lab.Prop[c08Case]{
		ID: "C08", Part: "endings",
		Rule: "rapid scenarios: 1..12 (occasionally 32) connections over plain/TLS/StartTLS, each with 0..4 handlers in flight (blocked on a gate that opens 0..60 ms - one Stop scenario in four: 1.2..4.5 s - AFTER the ending was triggered; one connection in four also gets a request whose handler panics at once (recovered) while the others are still running; or writing 3 MB to a client that does not read), ending by client FIN, client RST, Unbind, malformed frame, unsupported operation, mid-frame disconnect, panicking unbind handler (recovered), server read timeout, server write timeout (handlers' responses fail, then Unbind), or server Stop followed by more requests (or, having sent an Unbind, by a client that reads nothing for a while); the in-flight requests and the ending may leave in ONE write (handlers only just dispatched when the connection ends); oracle = exactly one OnClose per connection with the ConnectionID its handlers saw, stamped after every handler exit of that connection; for server-initiated endings the client's EOF/RST is also stamped after every handler exit; afterwards no connection goroutine and no socket descriptor remains (garbage collector disabled during the scenario so that a finalizer cannot hide a forgotten close); non-trivial = >= 1 handler in flight when the ending happened; distinct by hash",
		Gen: func(t *rapid.T) c08Case {
			c := c08Case{
				Mode:        rapid.SampledFrom([]string{"normal", "normal", "normal", "normal", "normal", "readtimeout", "writetimeout", "stop"}).Draw(t, "mode"),
				GateDelayMs: rapid.SampledFrom([]int{0, 2, 10, 30, 60}).Draw(t, "gatedelay"),
			}
			if c.Mode == "stop" && rapid.IntRange(0, 3).Draw(t, "longgate") == 0 {
				// handlers that are busy with something else than the connection for seconds after Stop was called
				c.GateDelayMs = rapid.SampledFrom([]int{1200, 2600, 4500}).Draw(t, "longgatems")
			}
			n := rapid.IntRange(1, 12).Draw(t, "nconns")
			if rapid.IntRange(0, 19).Draw(t, "many") == 0 {
				n = 32
			}
			for i := 0; i < n; i++ {
				cs := c08Conn{
					Ending:    rapid.SampledFrom(c08Endings).Draw(t, "ending"),
					InFlight:  rapid.SampledFrom([]string{"none", "blocked", "blocked", "writing"}).Draw(t, "inflight"),
					K:         rapid.IntRange(1, 4).Draw(t, "k"),
					Transport: rapid.SampledFrom([]string{"plain", "plain", "tls", "starttls"}).Draw(t, "transport"),
				}
				cs.Pipelined = rapid.IntRange(0, 2).Draw(t, "pipelined") == 0
				cs.Stall = c.Mode == "stop" && cs.InFlight == "writing" && rapid.Bool().Draw(t, "stall")
				cs.PanicOne = cs.InFlight != "none" && rapid.IntRange(0, 3).Draw(t, "panicone") == 0
				if (c.Mode == "readtimeout" || c.Mode == "writetimeout") && cs.InFlight == "writing" {
					cs.InFlight = "blocked"
				}
				c.Conns = append(c.Conns, cs)
			}
			return c
		},
		Exec: c08Exec,
	}.Run(t)
}
