package props

import (
	"encoding/json"
	"errors"
	"fmt"
	"net"
	"strings"
	"sync"
	"sync/atomic"
	"syscall"
	"testing"
	"time"

	"github.com/go-ldap/ldap/v3"
	"github.com/jimlambrt/gldap"
	"pgregory.net/rapid"

	"verifharness/lab"
	"verifharness/wire"
)

type c07Scenario struct {
	Fault      string `json:"fault"` // handler-panic malformed rst-midframe truncated-fin write-to-gone never-reads emfile
	Op         string `json:"op"`    // handler-panic: bind search modify add delete extended starttls unbind default
	PanicKind  string `json:"panic_kind"`
	AfterWrite bool   `json:"after_write"`
	Bystanders int    `json:"bystanders"`
	Exchanges  int    `json:"exchanges"` // request/response pairs per bystander before and after the fault
	Disable    bool   `json:"disable_recovery,omitempty"`
	TLS        bool   `json:"tls,omitempty"` // the server runs with a TLS configuration; bystanders and new connections are TLS clients
	// emfile: Outages periods of OutageMs during which accept() fails, 20 ms apart (0/0 = one period of 30 ms)
	OutageMs int `json:"outage_ms,omitempty"`
	Outages  int `json:"outages,omitempty"`
	// CheckReady (C17): after the fault, Ready() == true obliges the server to accept and serve a new connection
	CheckReady bool `json:"check_ready,omitempty"`
}

type c07Custom struct{ X int }

// panic values whose own Error() / String() method panics: whatever the server does with a recovered value
// (log it, wrap it) happens inside a deferred function, where a second panic is fatal to the process
type c07BadErr struct{ inner *c07Custom }

func (e *c07BadErr) Error() string { return fmt.Sprint(e.inner.X) } // nil receiver / nil inner: dereference

type c07BadStringer struct{ m map[string]int }

func (s c07BadStringer) String() string { s.m["x"]++; return "never" } // nil map write

func c07Panic(kind string) {
	switch kind {
	case "error":
		panic(errors.New("c07: error value"))
	case "nilderef":
		var p *c07Custom
		_ = p.X
	case "custom":
		panic(c07Custom{7})
	case "typed-nil-error":
		var e *c07BadErr
		panic(error(e))
	case "error-method-panics":
		panic(&c07BadErr{})
	case "stringer-panics":
		panic(c07BadStringer{})
	case "goldap-error-without-cause":
		panic(&ldap.Error{ResultCode: ldap.LDAPResultBusy}) // go-ldap's (*Error).Error dereferences Err
	case "index":
		var a []int
		_ = a[3]
	default:
		panic("c07: string value")
	}
}

const c07FaultTag = 900

// c07Run executes one scenario inside the worker child.
func c07Run(index int, raw json.RawMessage) lab.WorkerResult {
	var s c07Scenario
	if err := json.Unmarshal(raw, &s); err != nil {
		return lab.WorkerResult{Skipped: "bad scenario"}
	}
	main, _, err := lab.SharedPKI()
	if err != nil {
		return lab.WorkerResult{Skipped: err.Error()}
	}
	var panicReached int32
	var idMu sync.Mutex
	connIDs := map[int]int{} // client tag -> ConnectionID its handlers reported
	h := func(label string) gldap.HandlerFunc {
		return func(w *gldap.ResponseWriter, r *gldap.Request) {
			kind, id, _ := gldap.VerifMessageInfo(r)
			idMu.Lock()
			connIDs[tagOf(id)] = r.ConnectionID()
			idMu.Unlock()
			if tagOf(id) == c07FaultTag {
				switch s.Fault {
				case "handler-panic":
					if label == s.Op || (s.Op == "default" && label == "default") {
						if s.AfterWrite && kind != "unbind" {
							_ = respondOK(w, r)
						}
						atomic.StoreInt32(&panicReached, 1)
						c07Panic(s.PanicKind)
					}
				case "write-to-gone", "never-reads", "never-reads-then-unbind", "never-reads-then-fin", "never-reads-then-malformed", "never-reads-crowd":
					big := string(make([]byte, 32<<10))
					for i := 0; i < 200; i++ {
						e := r.NewSearchResponseEntry("cn=x")
						e.AddAttribute("p", []string{big})
						if err := w.Write(e); err != nil {
							atomic.StoreInt32(&panicReached, 1) // a failed write was observed
							break
						}
					}
				}
			}
			if kind == "unbind" {
				return
			}
			// bystander echo: the diagnostic message repeats the message ID
			_ = w.Write(r.NewResponse(gldap.WithApplicationCode(respTagOfOp[kind]), gldap.WithResponseCode(0), gldap.WithDiagnosticMessage(fmt.Sprint(id))))
		}
	}
	mux, _ := gldap.NewMux()
	if s.Op != "default" || s.Fault != "handler-panic" {
		_ = mux.Bind(h("bind"))
		_ = mux.Search(h("search"))
		_ = mux.Modify(h("modify"))
		_ = mux.Add(h("add"))
		_ = mux.Delete(h("delete"))
		_ = mux.ExtendedOperation(h("extended"), "1.3.6.1.4.1.4203.1.11.3")
	}
	if s.Fault == "handler-panic" && s.Op == "starttls" {
		_ = mux.ExtendedOperation(h("starttls"), gldap.ExtendedOperationStartTLS)
	} else {
		_ = mux.ExtendedOperation(lab.StartTLSHandler(main.ServerTLS()), gldap.ExtendedOperationStartTLS)
	}
	_ = mux.Unbind(h("unbind"))
	_ = mux.DefaultRoute(h("default"))
	so := lab.ServerOpts{DisableRecovery: s.Disable}
	if s.TLS {
		so.TLS = main.ServerTLS()
	}
	srv, err := lab.StartServer(mux, so)
	if err != nil {
		return lab.WorkerResult{Skipped: err.Error()}
	}
	dial := func() (*lab.Client, error) {
		if s.TLS {
			return lab.DialTLS(srv.Addr, main.ClientTLS(false))
		}
		return lab.Dial(srv.Addr)
	}
	fail := func(fp, format string, a ...interface{}) lab.WorkerResult {
		return lab.WorkerResult{OK: false, FP: fp, Msg: fmt.Sprintf(format, a...), Delivered: true}
	}
	// bystanders
	type by struct {
		cl   *lab.Client
		next int64
	}
	bys := make([]*by, s.Bystanders)
	for i := range bys {
		cl, err := dial()
		if err != nil {
			return lab.WorkerResult{Skipped: err.Error()}
		}
		bys[i] = &by{cl: cl}
		defer cl.Close()
	}
	exchange := func(i int, b *by) error {
		b.next++
		id := int64(i+1)*tagStride + b.next
		op := []string{"search", "bind", "modify", "add", "delete", "extended"}[int(b.next)%6]
		if err := b.cl.Send(simpleReq(op, id).Bytes()); err != nil {
			return fmt.Errorf("send: %w", err)
		}
		m, err := b.cl.Next(10 * time.Second)
		if err != nil {
			return fmt.Errorf("no response to msgid %d: %w", id, err)
		}
		res, rerr := m.Result()
		if rerr != nil || m.ID != id || string(res.Diag) != fmt.Sprint(id) {
			return fmt.Errorf("wrong response to msgid %d: id=%d diag=%q err=%v", id, m.ID, res.Diag, rerr)
		}
		return nil
	}
	// bystanders run concurrently with the fault
	stop := make(chan struct{})
	var wg sync.WaitGroup
	byErr := make([]error, len(bys))
	done := make([]int64, len(bys))
	for i, b := range bys {
		wg.Add(1)
		go func(i int, b *by) {
			defer wg.Done()
			for {
				select {
				case <-stop:
					return
				default:
				}
				if err := exchange(i, b); err != nil {
					byErr[i] = err
					return
				}
				atomic.AddInt64(&done[i], 1)
			}
		}(i, b)
	}
	waitExchanges := func(n int64) bool {
		deadline := time.Now().Add(15 * time.Second)
		base := make([]int64, len(bys))
		for i := range base {
			base[i] = atomic.LoadInt64(&done[i])
		}
		for {
			ok := true
			for i := range bys {
				if byErr[i] != nil {
					return false
				}
				if atomic.LoadInt64(&done[i])-base[i] < n {
					ok = false
				}
			}
			if ok {
				return true
			}
			if time.Now().After(deadline) {
				return false
			}
			time.Sleep(200 * time.Microsecond)
		}
	}
	if !waitExchanges(int64(s.Exchanges)) {
		close(stop)
		wg.Wait()
		return lab.WorkerResult{Skipped: fmt.Sprintf("bystanders not served before the fault: %v", byErr)}
	}
	// ---- the fault -----------------------------------------------------------
	delivered := false
	faultID := int64(c07FaultTag)*tagStride + 1
	switch s.Fault {
	case "tls-silent-client", "tls-partial-hello":
		// a client that connects to the TLS port and stalls before / inside its ClientHello,
		// keeping the connection open while everybody else goes on
		raw, err := net.DialTimeout("tcp", srv.Addr, 5*time.Second)
		if err == nil {
			defer raw.Close()
			if s.Fault == "tls-partial-hello" {
				h := clientHello()
				_, _ = raw.Write(h[:len(h)/2])
			}
			time.Sleep(30 * time.Millisecond)
			delivered = true
		}
	case "handler-panic":
		cl, err := dial()
		if err != nil {
			break
		}
		switch s.Op {
		case "starttls":
			_ = cl.Send(ReqSpec{Req: wire.Req{Kind: "extended", MsgID: faultID, ExtName: []byte(wire.OIDStartTLS)}}.Bytes())
		case "unbind":
			_ = cl.Send(simpleReq("unbind", faultID).Bytes())
		case "default":
			_ = cl.Send(simpleReq("search", faultID).Bytes())
		default:
			_ = cl.Send(simpleReq(s.Op, faultID).Bytes())
		}
		// give the panic time to happen (the process dies here on a server without per-request recovery)
		deadline := time.Now().Add(3 * time.Second)
		for atomic.LoadInt32(&panicReached) == 0 && time.Now().Before(deadline) {
			time.Sleep(200 * time.Microsecond)
		}
		time.Sleep(5 * time.Millisecond)
		delivered = atomic.LoadInt32(&panicReached) == 1
		cl.Close()
	case "malformed":
		cl, err := lab.Dial(srv.Addr)
		if err == nil {
			_ = cl.Send([]byte{0x30, 0x0c, 0x02, 0x01, 0x01, 0x60, 0x07, 0x02, 0x01, 0x02, 0x04, 0x00, 0x80, 0x00, 0xff, 0xff, 0x30})
			_, how, _ := readUntilClosed(cl, 2*time.Second)
			delivered = how != "timeout"
			cl.Close()
		}
	case "rst-midframe":
		cl, err := lab.Dial(srv.Addr)
		if err == nil {
			b := simpleReq("search", faultID).Bytes()
			_ = cl.Send(b[:len(b)/2])
			time.Sleep(time.Millisecond)
			rst(cl.C)
			delivered = true
		}
	case "truncated-fin":
		cl, err := lab.Dial(srv.Addr)
		if err == nil {
			b := simpleReq("add", faultID).Bytes()
			_ = cl.Send(b[:len(b)-3])
			cl.Close()
			delivered = true
		}
	case "write-to-gone", "never-reads", "never-reads-then-unbind", "never-reads-then-fin", "never-reads-then-malformed":
		cl, err := dial()
		if err == nil {
			_ = cl.Send(simpleReq("search", faultID).Bytes())
			switch s.Fault {
			case "never-reads-then-unbind":
				// the stalled client says goodbye but keeps its socket open and still reads nothing
				_ = cl.Send(simpleReq("unbind", faultID+1).Bytes())
			case "never-reads-then-fin":
				type closeWriter interface{ CloseWrite() error }
				if cw, ok := rawConn(cl.C).(closeWriter); ok {
					_ = cw.CloseWrite()
				}
			case "never-reads-then-malformed":
				_ = cl.Send([]byte{0x30, 0x03, 0xff, 0xff, 0xff})
			}
			if s.Fault == "write-to-gone" {
				time.Sleep(2 * time.Millisecond)
				rst(rawConn(cl.C))
				deadline := time.Now().Add(3 * time.Second)
				for atomic.LoadInt32(&panicReached) == 0 && time.Now().Before(deadline) {
					time.Sleep(time.Millisecond)
				}
				delivered = atomic.LoadInt32(&panicReached) == 1
			} else {
				time.Sleep(50 * time.Millisecond) // the handler is now blocked writing into full socket buffers
				delivered = true
				defer cl.Close()
			}
		}
	case "never-reads-crowd":
		// several clients that together have hundreds of requests outstanding and read nothing: every one of their
		// handlers ends up parked in Write or queued behind one - whatever the server shares between connections
		// (worker slots, buffers) must not run out for the others
		okc := 0
		for k := 0; k < 3; k++ {
			cl, err := dial()
			if err != nil {
				continue
			}
			defer cl.Close()
			var buf []byte
			for j := 0; j < 100; j++ {
				buf = append(buf, simpleReq("search", faultID+int64(k*100+j)).Bytes()...)
			}
			go func() { _ = cl.Send(buf) }()
			okc++
		}
		time.Sleep(150 * time.Millisecond)
		delivered = okc == 3
	case "emfile", "emfile-ids":
		// lower the descriptor limit so that accept() fails with EMFILE
		var lim syscall.Rlimit
		if err := syscall.Getrlimit(syscall.RLIMIT_NOFILE, &lim); err != nil {
			break
		}
		used := socketFDsAll()
		tight := lim
		tight.Cur = uint64(used + 6)
		if err := syscall.Setrlimit(syscall.RLIMIT_NOFILE, &tight); err != nil {
			break
		}
		outages, outageMs := s.Outages, s.OutageMs
		if outages <= 0 {
			outages = 1
		}
		if outageMs <= 0 {
			outageMs = 30
			if s.Fault == "emfile-ids" {
				outageMs = 150 // many failed accepts
			}
		}
		for o := 0; o < outages; o++ {
			if o > 0 {
				if err := syscall.Setrlimit(syscall.RLIMIT_NOFILE, &tight); err != nil {
					break
				}
			}
			var conns []net.Conn
			for i := 0; i < 40; i++ {
				c, err := net.DialTimeout("tcp", srv.Addr, time.Second)
				if err != nil {
					if strings.Contains(err.Error(), "too many open files") {
						delivered = true
					}
					break
				}
				conns = append(conns, c)
			}
			time.Sleep(time.Duration(outageMs) * time.Millisecond) // accept keeps failing during this window
			for _, c := range conns {
				c.Close()
			}
			_ = syscall.Setrlimit(syscall.RLIMIT_NOFILE, &lim)
			time.Sleep(20 * time.Millisecond)
		}
	}
	// ---- after the fault -------------------------------------------------------
	served := waitExchanges(int64(s.Exchanges))
	close(stop)
	wg.Wait()
	desc := fmt.Sprintf("fault=%s op=%s panic=%s after-write=%v bystanders=%d tls=%v", s.Fault, s.Op, s.PanicKind, s.AfterWrite, s.Bystanders, s.TLS)
	if s.Outages > 0 || s.OutageMs > 0 {
		desc += fmt.Sprintf(" outages=%dx%dms", s.Outages, s.OutageMs)
	}
	if s.CheckReady {
		// C17's reading of the same scenario: Stop was not called, so Ready() == true obliges the server to
		// accept and serve a new connection; Ready() == false obliges nothing
		if !srv.S.Ready() {
			return lab.WorkerResult{OK: true, Delivered: false}
		}
		ncl, err := dial()
		if err != nil {
			return fail("ready-true-but-refused:"+s.Fault, "%s: Ready() == true after the descriptor shortage but a new connection fails: %v", desc, err)
		}
		defer ncl.Close()
		_ = ncl.Send(simpleReq("bind", 78).Bytes())
		if m, err := ncl.Next(10 * time.Second); err != nil || m.ID != 78 {
			if srv.S.Ready() {
				extra := ""
				if srv.RunReturned() {
					extra = fmt.Sprintf(" (Run has returned: %v)", <-srv.RunErr)
				}
				return fail("ready-true-but-not-served:"+s.Fault, "%s: Ready() == true before and after the attempt, Stop never called, but a new connection is not served: %v%s", desc, err, extra)
			}
			return lab.WorkerResult{OK: true, Delivered: false}
		}
		for _, b := range bys {
			b.cl.Close()
		}
		_ = srv.Stop(10 * time.Second)
		return lab.WorkerResult{OK: true, Delivered: delivered}
	}
	if srv.RunReturned() {
		err := <-srv.RunErr
		return fail("run-returned:"+s.Fault, "%s: Server.Run returned (%v): the server stopped accepting connections", desc, err)
	}
	for i, e := range byErr {
		if e != nil {
			return fail("bystander-disturbed:"+s.Fault, "%s: bystander connection %d: %v", desc, i, e)
		}
	}
	if !served {
		return fail("bystander-starved:"+s.Fault, "%s: bystander connections stopped being served after the fault", desc)
	}
	if s.Fault == "emfile-ids" {
		// connection IDs stay unique and positive across the accept failures
		var later []*lab.Client
		defer func() {
			for _, c := range later {
				c.Close()
			}
		}()
		for k := 0; k < 40; k++ {
			c, err := lab.Dial(srv.Addr)
			if err != nil {
				return fail("new-connection-refused:"+s.Fault, "%s: new connection #%d after the fault fails: %v", desc, k, err)
			}
			later = append(later, c)
			id := int64(800+k)*tagStride + 1
			_ = c.Send(simpleReq("search", id).Bytes())
			if m, err := c.Next(10 * time.Second); err != nil || m.ID != id {
				if srv.RunReturned() {
					return fail("run-returned:"+s.Fault, "%s: Server.Run returned (%v) when connection #%d after the fault arrived", desc, <-srv.RunErr, k)
				}
				return fail("new-connection-not-served:"+s.Fault, "%s: new connection #%d after the fault is not served: %v", desc, k, err)
			}
		}
		idMu.Lock()
		seen := map[int]int{}
		var problem string
		for tag, cid := range connIDs {
			if tag == c07FaultTag {
				continue
			}
			if cid <= 0 {
				problem = fmt.Sprintf("connection with client tag %d reports the non-positive ConnectionID %d", tag, cid)
			}
			if prev, dup := seen[cid]; dup {
				problem = fmt.Sprintf("ConnectionID %d is reported by the live connections with client tags %d and %d", cid, prev, tag)
			}
			seen[cid] = tag
		}
		idMu.Unlock()
		if problem != "" {
			return fail("connection-id-reused-after-accept-error", "%s: %s (IDs by tag: %v)", desc, problem, connIDs)
		}
	}
	ncl, err := dial()
	if err != nil {
		return fail("new-connection-refused:"+s.Fault, "%s: a new connection after the fault fails: %v", desc, err)
	}
	defer ncl.Close()
	_ = ncl.Send(simpleReq("bind", 77).Bytes())
	if m, err := ncl.Next(10 * time.Second); err != nil || m.ID != 77 {
		return fail("new-connection-not-served:"+s.Fault, "%s: a new connection after the fault is not served: %v", desc, err)
	}
	ncl.Close()
	for _, b := range bys {
		b.cl.Close()
	}
	_ = srv.Stop(10 * time.Second)
	return lab.WorkerResult{OK: true, Delivered: delivered}
}

func socketFDsAll() int {
	n := 0
	for i := 0; i < 4096; i++ {
		var st syscall.Stat_t
		if syscall.Fstat(i, &st) == nil {
			n = i + 1
		}
	}
	return n
}

// TestWorkerMain is the entry point of worker child processes.
func TestWorkerMain(t *testing.T) {
	switch lab.InWorker() {
	case "c07":
		lab.WorkerMain(c07Run)
	case "c11":
		lab.WorkerMain(c11Run)
	case "c16":
		lab.WorkerMain(c16ConcRun)
	default:
		t.Skip("not a worker process")
	}
}

func c07Enumerate() []c07Scenario {
	var out []c07Scenario
	for _, op := range []string{"bind", "search", "modify", "add", "delete", "extended", "starttls", "unbind", "default"} {
		for _, after := range []bool{false, true} {
			for _, pk := range []string{"string", "error", "nilderef", "custom"} {
				out = append(out, c07Scenario{Fault: "handler-panic", Op: op, PanicKind: pk, AfterWrite: after})
			}
		}
	}
	// values whose Error / String method panics itself
	for _, op := range []string{"search", "bind", "starttls", "unbind", "default"} {
		for k, pk := range []string{"typed-nil-error", "error-method-panics", "stringer-panics", "goldap-error-without-cause"} {
			out = append(out, c07Scenario{Fault: "handler-panic", Op: op, PanicKind: pk, AfterWrite: k%2 == 1})
		}
	}
	for _, f := range []string{"malformed", "rst-midframe", "truncated-fin", "write-to-gone", "never-reads", "never-reads-then-unbind", "never-reads-then-fin", "never-reads-then-malformed", "never-reads-crowd", "emfile"} {
		out = append(out, c07Scenario{Fault: f})
	}
	// descriptor shortages of different lengths and repeated ones
	for _, o := range [][2]int{{400, 1}, {1200, 1}, {60, 12}, {10, 40}} {
		out = append(out, c07Scenario{Fault: "emfile", OutageMs: o[0], Outages: o[1]})
	}
	// the same against a server with a TLS configuration, plus clients stalling in the handshake
	for _, f := range []string{"tls-silent-client", "tls-partial-hello", "malformed", "rst-midframe", "write-to-gone", "never-reads", "never-reads-then-unbind", "never-reads-crowd"} {
		out = append(out, c07Scenario{Fault: f, TLS: true})
	}
	for _, op := range []string{"search", "unbind", "default"} {
		out = append(out, c07Scenario{Fault: "handler-panic", Op: op, PanicKind: "error", TLS: true})
	}
	return out
}

type c07Batch struct {
	Scenarios []c07Scenario `json:"scenarios"`
}

func c07Exec(c c07Batch, st *lab.Stats) *lab.Fail {
	cases := make([]interface{}, len(c.Scenarios))
	for i := range c.Scenarios {
		cases[i] = c.Scenarios[i]
	}
	res, err := lab.RunWorkers("c07", cases, 60*time.Second)
	if err != nil {
		st.Inconclusive(err.Error())
		return nil
	}
	var first *lab.Fail
	for i, r := range res {
		s := c.Scenarios[i]
		cls := []string{"fault=" + s.Fault, fmt.Sprintf("bystanders=%d", s.Bystanders), fmt.Sprintf("tls=%v", s.TLS)}
		if s.Fault == "handler-panic" {
			cls = append(cls, "panic-op="+s.Op, "panic-kind="+s.PanicKind, fmt.Sprintf("after-write=%v", s.AfterWrite))
		}
		if r.Skipped != "" {
			st.Class("skipped")
			st.Inconclusive(fmt.Sprintf("scenario %+v skipped: %s", s, r.Skipped))
			continue
		}
		st.Case(r.Delivered && s.Bystanders >= 1, lab.JSONKey(s), cls...)
		if st.WantSample() {
			st.Sample(s)
		}
		var f *lab.Fail
		switch {
		case r.Died && r.Hung:
			f = lab.Failf("process-hung:"+s.Fault+":"+s.Op, "scenario %+v: the server process stopped making progress (killed by the watchdog); stderr tail: %s", s, tailOf(r.Stderr, 600))
		case r.Died:
			f = lab.Failf("process-died:"+s.Fault+":"+s.Op, "scenario %+v: the server PROCESS DIED (%s) although panic recovery is enabled; stderr: %s", s, r.ExitInfo, tailOf(r.Stderr, 900))
		case !r.OK:
			f = &lab.Fail{Fingerprint: r.FP, Message: r.Msg}
		}
		if f != nil {
			known := st.Report(f, c07Batch{Scenarios: []c07Scenario{s}})
			if !known && first == nil {
				first = f
			}
		}
	}
	return first
}

func tailOf(s string, n int) string {
	// the interesting part of a Go crash is its head (panic message + first frames)
	if len(s) > n {
		return s[:n] + "…"
	}
	return s
}

// TestC07Enum runs the complete enumeration fault kind x operation x
// {before, after write} x panic value (both tiers); bystander traffic is fixed.
func TestC07Enum(t *testing.T) {
	lab.SkipIfReplayOther(t, "enum")
	st := lab.GetStats("C07", "enum")
	st.SetRule("complete enumeration: handler panic (string / error / nil dereference / custom value; and values whose own Error or String method panics: typed-nil error, error with a nil field, Stringer writing to a nil map, a go-ldap *Error without cause) before and after writing a response in the handler of every operation (bind, search, modify, add, delete, extended, StartTLS, unbind, default route) plus malformed frame, RST mid-frame, truncated frame + FIN, handler writing to a client that has gone, client that never reads while the handler writes 6 MB (also followed by an Unbind, a half-close or a malformed frame while it keeps its socket open), three clients that pipeline 100 such requests each and read nothing (300 handlers parked), descriptor exhaustion at accept (RLIMIT_NOFILE lowered in the child; one shortage of 30 / 400 / 1200 ms, 12 of 60 ms, 40 of 10 ms); against a TLS-configured server additionally a client that connects and stays silent or stalls inside its ClientHello; each inside verified request/response traffic of 2 bystander connections, followed by a new connection; executed in worker child processes; oracle = child survives, Run has not returned, every bystander response correct, new connection served; non-trivial = fault actually delivered while >= 1 bystander was exchanging requests; distinct by scenario")
	defer lab.FlushAll()
	if lab.ReplayInto(t, st, "enum", c07Exec) {
		return
	}
	all := c07Enumerate()
	shard, nsh := lab.Shard()
	var mine []c07Scenario
	for i, s := range all {
		if i%nsh == shard {
			s.Bystanders, s.Exchanges = 2, 5
			mine = append(mine, s)
		}
	}
	if f := c07Exec(c07Batch{Scenarios: mine}, st); f != nil {
		t.Fatalf("%s", f.Error())
	}
	st.SetExhaustive(true)
}

// TestC07Random varies the surrounding traffic.
func TestC07Random(t *testing.T) {
	all := c07Enumerate()
	lab.Prop[c07Batch]{
		ID: "C07", Part: "random",
		Rule: "rapid: batches of 4..10 scenarios drawn from the enumeration above with generated bystander traffic (1..4 bystander connections, 2..20 exchanges before and after the fault; 1..8 descriptor shortages of 5..600 ms); same oracle",
		Gen: func(t *rapid.T) c07Batch {
			var b c07Batch
			n := rapid.IntRange(4, 10).Draw(t, "n")
			for i := 0; i < n; i++ {
				s := all[rapid.IntRange(0, len(all)-1).Draw(t, "scenario")]
				s.Bystanders = rapid.IntRange(1, 4).Draw(t, "bystanders")
				s.Exchanges = rapid.IntRange(2, 20).Draw(t, "exchanges")
				if s.Fault == "emfile" {
					s.OutageMs = rapid.SampledFrom([]int{5, 30, 100, 250, 600}).Draw(t, "outagems")
					s.Outages = rapid.IntRange(1, 8).Draw(t, "outages")
				}
				b.Scenarios = append(b.Scenarios, s)
			}
			return b
		},
		Exec: c07Exec,
	}.Run(t)
}
