package props

import (
	"crypto/tls"
	"fmt"
	"sort"
	"sync"
	"testing"
	"time"

	"github.com/go-ldap/ldap/v3"
	"github.com/hashicorp/go-hclog"
	"github.com/jimlambrt/gldap"
	"pgregory.net/rapid"

	"verifharness/lab"
	"verifharness/wire"
)

type c13Session struct {
	// ms: before the reply, between reply and handshake, after the handshake
	D1         int       `json:"d1"`
	D2         int       `json:"d2"`
	D3         int       `json:"d3"`
	Reqs       []ReqSpec `json:"reqs"`
	Concurrent bool      `json:"concurrent"` // tunnel requests pipelined in one write
	GoLDAP     bool      `json:"goldap"`     // drive the upgrade with go-ldap's StartTLS instead of the raw client
	Pre        int       `json:"pre"`        // plaintext requests answered before the StartTLS
	PauseMs    int       `json:"pause_ms"`   // idle time inside the tunnel before the requests are sent
	// Inject: the (raw) client puts a complete plaintext request behind its StartTLS request in the same
	// write. It arrived outside the TLS session: it must never be served, neither before nor inside the tunnel.
	Inject bool `json:"inject,omitempty"`
}

type c13Case struct {
	Sessions []c13Session `json:"sessions"`
	Debug    bool         `json:"debug"`     // the server logs at Debug level (packets are dumped, extra code paths run)
	LingerMs int          `json:"linger_ms"` // handlers of the plaintext requests before StartTLS keep running this long AFTER they have answered
}

// classifyTLS checks that b is a sequence of TLS records (the last one may be
// incomplete only if allowPartial).
func classifyTLS(b []byte, firstMustBeHandshake bool) error {
	off := 0
	first := true
	for off < len(b) {
		if len(b)-off < 5 {
			return nil // a partial record header at the very end of a capture
		}
		typ := b[off]
		ver := int(b[off+1])<<8 | int(b[off+2])
		l := int(b[off+3])<<8 | int(b[off+4])
		if typ < 20 || typ > 23 {
			return fmt.Errorf("byte offset %d: content type %d is not a TLS record (bytes %x)", off, typ, b[off:min(off+16, len(b))])
		}
		if ver < 0x0301 || ver > 0x0304 {
			return fmt.Errorf("byte offset %d: record version %#04x", off, ver)
		}
		if l > (1<<14)+2048 {
			return fmt.Errorf("byte offset %d: record length %d", off, l)
		}
		if first && firstMustBeHandshake && typ != 22 {
			return fmt.Errorf("first record after the StartTLS exchange has content type %d, want 22 (handshake)", typ)
		}
		first = false
		off += 5 + l
	}
	return nil
}

const c13RendezvousOID = "1.3.6.1.4.1.55555.13.1"

func c13Exec(c c13Case, st *lab.Stats) *lab.Fail {
	main, _, err := lab.SharedPKI()
	if err != nil {
		st.Inconclusive(err.Error())
		return nil
	}
	rc := &recorder{ch: make(chan struct{}, 1)}
	var extNames []string
	seen := map[string]bool{}
	for _, s := range c.Sessions {
		for _, r := range s.Reqs {
			if r.Kind == "extended" && !seen[string(r.ExtName)] {
				seen[string(r.ExtName)] = true
				extNames = append(extNames, string(r.ExtName))
			}
		}
	}
	mux := recordingMux(rc, extNames, true)
	if c.LingerMs > 0 {
		// plaintext searches before the upgrade: answered at once, handler lingers
		_ = mux.Search(func(w *gldap.ResponseWriter, r *gldap.Request) {
			rc.add(observe(r, "search"))
			_ = w.Write(r.NewResponse(gldap.WithResponseCode(gldap.ResultSuccess), gldap.WithDiagnosticMessage("search")))
			_, id, _ := gldap.VerifMessageInfo(r)
			if id%tagStride >= 400000 && id%tagStride < 450000 {
				time.Sleep(time.Duration(c.LingerMs) * time.Millisecond)
			}
		}, gldap.WithBaseDN("dc=x"))
	}
	// "dispatched exactly as on a plain connection" includes concurrently: two searches pipelined inside the tunnel,
	// the first handler waits until the second has been entered (4 s at most) and says so in its answer
	var rvMu sync.Mutex
	rv := map[int]chan struct{}{}
	rvChan := func(si int) chan struct{} {
		rvMu.Lock()
		defer rvMu.Unlock()
		if rv[si] == nil {
			rv[si] = make(chan struct{})
		}
		return rv[si]
	}
	_ = mux.ExtendedOperation(func(w *gldap.ResponseWriter, r *gldap.Request) {
		_, id, _ := gldap.VerifMessageInfo(r)
		ch := rvChan(tagOf(id))
		diag := "met"
		switch id % tagStride {
		case 480002:
			close(ch)
		case 480001:
			select {
			case <-ch:
			case <-time.After(4 * time.Second):
				diag = "waited-in-vain"
			}
		}
		_ = w.Write(r.NewResponse(gldap.WithApplicationCode(respTagOfOp["extended"]), gldap.WithResponseCode(gldap.ResultSuccess), gldap.WithDiagnosticMessage(diag)))
	}, gldap.ExtendedOperationName(c13RendezvousOID))
	var mu sync.Mutex
	handshakeErrs := map[int]error{}
	_ = mux.ExtendedOperation(func(w *gldap.ResponseWriter, r *gldap.Request) {
		_, id, _ := gldap.VerifMessageInfo(r)
		si := tagOf(id)
		var s c13Session
		if si < len(c.Sessions) {
			s = c.Sessions[si]
		}
		time.Sleep(time.Duration(s.D1) * time.Millisecond)
		res := r.NewExtendedResponse(gldap.WithResponseCode(gldap.ResultSuccess))
		res.SetResponseName(gldap.ExtendedOperationStartTLS)
		if err := w.Write(res); err != nil {
			return
		}
		time.Sleep(time.Duration(s.D2) * time.Millisecond)
		err := r.StartTLS(main.ServerTLS())
		mu.Lock()
		handshakeErrs[si] = err
		mu.Unlock()
		time.Sleep(time.Duration(s.D3) * time.Millisecond)
	}, gldap.ExtendedOperationStartTLS)
	// note: recordingMux registered its default route first; routes are matched before the default
	so := lab.ServerOpts{}
	if c.Debug {
		so.LogLevel = hclog.Debug
	}
	srv, err := lab.StartServer(mux, so)
	if err != nil {
		st.Inconclusive(err.Error())
		return nil
	}
	defer func() { _ = srv.Stop(15 * time.Second) }()
	st.Class(fmt.Sprintf("debuglog=%v", c.Debug), fmt.Sprintf("linger=%d", c.LingerMs))
	fails := make([]*lab.Fail, len(c.Sessions))
	var wg sync.WaitGroup
	for si, s := range c.Sessions {
		nt := s.D2 > 0 && len(s.Reqs) >= 2 && s.Concurrent
		st.Case(nt, lab.JSONKey(s), fmt.Sprintf("d2=%d", s.D2), fmt.Sprintf("d1=%d", s.D1), fmt.Sprintf("pause=%d", s.PauseMs), fmt.Sprintf("goldap=%v", s.GoLDAP), fmt.Sprintf("concurrent=%v", s.Concurrent), fmt.Sprintf("sessions<=%d", bucket(len(c.Sessions))))
		wg.Add(1)
		go func(si int, s c13Session) {
			defer wg.Done()
			fails[si] = c13Session1(si, s, srv, main, rc)
		}(si, s)
	}
	wg.Wait()
	if st.WantSample() {
		st.Sample(map[string]interface{}{"sessions": len(c.Sessions), "first": c.Sessions[0]})
	}
	for _, f := range fails {
		if f != nil {
			return f
		}
	}
	mu.Lock()
	defer mu.Unlock()
	for si, e := range handshakeErrs {
		if e != nil {
			return lab.Failf("server-handshake-failed", "session %d: Request.StartTLS returned %v although the client is conforming", si, e)
		}
	}
	return nil
}

func c13Session1(si int, s c13Session, srv *lab.Server, pki *lab.PKI, rc *recorder) *lab.Fail {
	tap, err := lab.NewWiretap(srv.Addr)
	if err != nil {
		return nil
	}
	defer tap.Close()
	base := int64(si) * tagStride
	desc := fmt.Sprintf("session %d (d1=%d d2=%d d3=%d ms, go-ldap=%v)", si, s.D1, s.D2, s.D3, s.GoLDAP)
	startTLSReq := wire.Req{Kind: "extended", MsgID: base + 500000, ExtName: []byte(wire.OIDStartTLS)}
	plainLen := 0
	if s.GoLDAP {
		conn, err := ldap.DialURL("ldap://" + tap.Addr)
		if err != nil {
			return nil
		}
		defer conn.Close()
		conn.SetTimeout(15 * time.Second)
		// go-ldap chooses its own message IDs (1, 2, ...): tag 0 only
		if err := conn.StartTLS(pki.ClientTLS(false)); err != nil {
			return lab.Failf("client-handshake-failed", "%s: go-ldap StartTLS failed: %v", desc, err)
		}
		for i := 0; i < 3; i++ {
			if err := conn.Bind("cn=x", "pw"); err != nil {
				return lab.Failf("tunnel-request-failed", "%s: bind inside the tunnel failed: %v", desc, err)
			}
		}
		conn.Close()
		time.Sleep(5 * time.Millisecond)
		c2s, s2c := tap.Captured()
		return c13Wire(desc, c2s, s2c, -1, -1, 0)
	}
	cl, err := lab.Dial(tap.Addr)
	if err != nil {
		return nil
	}
	defer cl.Close()
	// plaintext requests before the upgrade (each answered before the next: no operation outstanding)
	for i := 0; i < s.Pre; i++ {
		q := simpleReq("search", base+400000+int64(i))
		b := q.Bytes()
		plainLen += len(b)
		_ = cl.Send(b)
		if m, err := cl.Next(10 * time.Second); err != nil || m.ID != q.MsgID {
			return lab.Failf("plain-request-failed", "%s: plaintext request before StartTLS unanswered: %v", desc, err)
		}
	}
	plainLen += len(startTLSReq.Encode())
	var trailer []byte
	injectedID := base + 460000
	if s.Inject {
		trailer = simpleReq("delete", injectedID).Bytes()
		desc += ", a plaintext delete request pipelined behind the StartTLS request"
	}
	if err := cl.StartTLSWithTrailer(pki.ClientTLS(false), startTLSReq.MsgID, trailer); err != nil {
		if s.Inject {
			// the server may also refuse to go on with such a client: nothing was served, nothing to check
			return nil
		}
		return lab.Failf("client-handshake-failed", "%s: %v", desc, err)
	}
	// requests inside the tunnel (optionally after the session has been idle for a while)
	if s.PauseMs > 0 {
		q := simpleReq("bind", base+450000)
		_ = cl.Send(q.Bytes())
		if m, err := cl.Next(15 * time.Second); err != nil || m.ID != q.MsgID {
			return lab.Failf("tunnel-request-failed", "%s: first request inside the tunnel unanswered: %v", desc, err)
		}
		time.Sleep(time.Duration(s.PauseMs) * time.Millisecond)
	}
	want := map[int64]ReqSpec{}
	var bufs [][]byte
	for i, r := range s.Reqs {
		r.MsgID = base + int64(i) + 1
		want[r.MsgID] = r
		bufs = append(bufs, r.Bytes())
	}
	got := map[int64]int{}
	if s.Inject {
		// a marker request inside the tunnel: by the time it is answered, anything the server kept from
		// the plaintext phase would have been served as well
		q := simpleReq("bind", base+470000)
		_ = cl.Send(q.Bytes())
		for {
			m, err := cl.Next(15 * time.Second)
			if err != nil {
				return lab.Failf("tunnel-request-failed", "%s: marker request inside the tunnel unanswered: %v", desc, err)
			}
			if m.ID == injectedID {
				return lab.Failf("plaintext-request-answered-in-tunnel", "%s: the request that was sent in PLAINTEXT before the handshake (msgid=%d) was answered inside the TLS tunnel", desc, injectedID)
			}
			if m.ID == q.MsgID {
				break
			}
		}
		for _, o := range rc.snapshot() {
			id := o.MsgID
			if len(o.Kinds) == 0 {
				id = o.HookID
			}
			if id == injectedID {
				return lab.Failf("plaintext-request-dispatched", "%s: the request that was sent in PLAINTEXT behind the StartTLS request (msgid=%d) reached handler %q", desc, injectedID, o.Route)
			}
		}
	}
	if s.Concurrent {
		var all []byte
		for _, b := range bufs {
			all = append(all, b...)
		}
		go func() { _ = cl.Send(all) }()
		for range s.Reqs {
			m, err := cl.Next(15 * time.Second)
			if err != nil {
				return lab.Failf("tunnel-request-failed", "%s: %d of %d pipelined tunnel requests answered: %v", desc, len(got), len(s.Reqs), err)
			}
			got[m.ID]++
		}
	} else {
		for i, b := range bufs {
			_ = cl.Send(b)
			m, err := cl.Next(15 * time.Second)
			if err != nil {
				return lab.Failf("tunnel-request-failed", "%s: tunnel request %d unanswered: %v", desc, i, err)
			}
			got[m.ID]++
		}
	}
	for id := range want {
		if got[id] != 1 {
			return lab.Failf("tunnel-response-msgid", "%s: tunnel request msgid=%d got %d responses", desc, id, got[id])
		}
	}
	// decoded exactly as on a plain connection
	obs := rc.snapshot()
	byID := map[int64]Obs{}
	cnt := map[int64]int{}
	for _, o := range obs {
		id := o.MsgID
		if len(o.Kinds) == 0 {
			id = o.HookID
		}
		if tagOf(id) == si {
			byID[id] = o
			cnt[id]++
		}
	}
	for id, r := range want {
		if cnt[id] != 1 {
			return lab.Failf("tunnel-dispatch-count", "%s: tunnel request msgid=%d was dispatched %d times", desc, id, cnt[id])
		}
		if f := compareObs(r, byID[id]); f != nil {
			f.Message = desc + " inside the tunnel: " + f.Message
			return f
		}
	}
	// requests inside the tunnel continue the connection's numbering: Pre plaintext
	// requests, the StartTLS request itself, the optional first bind, then these
	first := s.Pre + 1
	if s.PauseMs > 0 {
		first++
	}
	if s.Inject {
		first++ // the marker bind
	}
	gotIDs := map[int]bool{}
	for id := range want {
		gotIDs[byID[id].ReqID] = true
	}
	for i := range s.Reqs {
		if !gotIDs[first+i+1] {
			return lab.Failf("tunnel-request-numbering", "%s: requests inside the tunnel carry Request.IDs %v, want the connection's numbering to continue with %d..%d", desc, keysInt(gotIDs), first+1, first+len(s.Reqs))
		}
	}
	if !s.Concurrent {
		for i, r := range s.Reqs {
			if byID[base+int64(i)+1].ReqID != first+i+1 {
				return lab.Failf("tunnel-request-numbering", "%s: tunnel request %d (%s) carries Request.ID %d, want %d", desc, i, r.Kind, byID[base+int64(i)+1].ReqID, first+i+1)
			}
		}
	}
	if s.Concurrent {
		q1, q2 := simpleReq("extended", base+480001), simpleReq("extended", base+480002)
		q1.ExtName, q2.ExtName = []byte(c13RendezvousOID), []byte(c13RendezvousOID)
		_ = cl.Send(append(q1.Bytes(), q2.Bytes()...))
		for k := 0; k < 2; k++ {
			m, err := cl.Next(15 * time.Second)
			if err != nil {
				return lab.Failf("tunnel-request-failed", "%s: rendezvous request inside the tunnel unanswered: %v", desc, err)
			}
			if res, err := m.Result(); err == nil && string(res.Diag) == "waited-in-vain" {
				return lab.Failf("tunnel-not-concurrent", "%s: two requests were pipelined inside the tunnel; the first handler waited 4 s for the second to be dispatched - in vain: requests inside the tunnel are not dispatched concurrently as they are on a plain connection", desc)
			}
		}
	}
	cl.Close()
	time.Sleep(2 * time.Millisecond)
	c2s, s2c := tap.Captured()
	return c13Wire(desc, c2s, s2c, plainLen, startTLSReq.MsgID, len(trailer))
}

// c13Wire classifies the captured bytes: LDAP frames up to and including the
// StartTLS exchange, TLS records only afterwards.
func c13Wire(desc string, c2s, s2c []byte, plainLen int, respID int64, clientTrailer int) *lab.Fail {
	// client -> server: skip whole LDAP frames until the StartTLS request has passed
	off := 0
	for off < len(c2s) {
		n, used, err := wire.ParseOne(c2s[off:])
		if err != nil {
			break
		}
		m, err := wire.ParseMessage(n)
		off += used
		if err == nil && m.OpTag == wire.AppExtendedRequest && len(m.Op.Children) > 0 && string(m.Op.Children[0].Data) == wire.OIDStartTLS {
			break
		}
	}
	if plainLen >= 0 && off != plainLen {
		return lab.Failf("wire-plaintext-client", "%s: client->server capture: StartTLS request ends at %d, expected %d", desc, off, plainLen)
	}
	// the plaintext the client itself chose to pipeline behind its StartTLS request is the client's business
	if clientTrailer > 0 && off+clientTrailer <= len(c2s) {
		off += clientTrailer
	}
	if err := classifyTLS(c2s[off:], true); err != nil {
		return lab.Failf("wire-plaintext-client", "%s: client->server bytes after the StartTLS request are not all TLS records: %v", desc, err)
	}
	// server -> client: LDAP frames up to the StartTLS response (message ID of the request, tag 24)
	off = 0
	found := false
	for off < len(s2c) {
		n, used, err := wire.ParseOne(s2c[off:])
		if err != nil {
			break
		}
		m, err := wire.ParseMessage(n)
		if err != nil {
			break
		}
		off += used
		if m.OpTag == wire.AppExtendedResponse && (respID < 0 || m.ID == respID) {
			found = true
			break
		}
	}
	if !found {
		return lab.Failf("wire-no-starttls-response", "%s: no StartTLS response in the server->client capture", desc)
	}
	if err := classifyTLS(s2c[off:], true); err != nil {
		return lab.Failf("wire-plaintext-server", "%s: server->client bytes after the StartTLS response are not all TLS records: %v", desc, err)
	}
	return nil
}

var _ = tls.VersionTLS12

func keysInt(m map[int]bool) []int {
	var out []int
	for k := range m {
		out = append(out, k)
	}
	sort.Ints(out)
	return out
}

func TestC13(t *testing.T) {
	delays := []int{0, 0, 1, 5, 20, 50}
	lab.Prop[c13Case]{
		ID: "C13", Part: "starttls",
		Rule: "rapid: 1..16 parallel sessions through a recording wiretap proxy; the StartTLS handler sleeps d1, writes success, sleeps d2 (0..50 ms, occasionally up to 600 ms, one session in 40 with 2..5.5 s before or after the reply; the client's ClientHello is already on the wire), calls Request.StartTLS, sleeps d3; the session may then stay idle for 0.3..2.5 s; then 1..40 generated requests of all operations (controls, binary values) inside the tunnel, sequentially or pipelined in one write; the server's logger is at Error or Debug level; handlers of the plaintext requests before the StartTLS may linger after answering; conforming clients = raw independent client and go-ldap StartTLS; one raw session in five also pipelines a complete plaintext request behind its StartTLS request in the same write (it must never be dispatched or answered, neither before nor inside the tunnel); oracle = handshake succeeds for every timing, every tunnel request is decoded (field-by-field as C01), numbered in continuation of the connection's Request.IDs and answered once, pipelined sessions end with a rendezvous (two extended requests in one write: the first of the two handlers waits for the second to be entered: dispatch inside the tunnel is concurrent), and every captured byte after the StartTLS exchange is a TLS record in both directions; non-trivial = d2 > 0 and >= 2 concurrent requests after the upgrade; distinct by hash of the session",
		Gen: func(t *rapid.T) c13Case {
			var c c13Case
			c.Debug = rapid.IntRange(0, 3).Draw(t, "debuglog") == 0
			if rapid.IntRange(0, 2).Draw(t, "linger") == 0 {
				c.LingerMs = rapid.SampledFrom([]int{1, 20, 300}).Draw(t, "lingerms")
			}
			n := rapid.IntRange(1, 6).Draw(t, "nsessions")
			if rapid.IntRange(0, 9).Draw(t, "many") == 0 {
				n = 16
			}
			for i := 0; i < n; i++ {
				dl := delays
				if rapid.IntRange(0, 7).Draw(t, "slowhandler") == 0 {
					dl = []int{0, 120, 300, 600} // a slow handler: "whatever the handler's timing"
				}
				s := c13Session{
					D1: rapid.SampledFrom(dl).Draw(t, "d1"), D2: rapid.SampledFrom(dl).Draw(t, "d2"), D3: rapid.SampledFrom(dl).Draw(t, "d3"),
					Concurrent: rapid.Bool().Draw(t, "concurrent"),
					GoLDAP:     i == 0 && rapid.IntRange(0, 3).Draw(t, "goldap") == 0,
					Pre:        rapid.IntRange(0, 2).Draw(t, "pre"),
					Inject:     rapid.IntRange(0, 4).Draw(t, "inject") == 0,
				}
				// a handler that takes seconds (a slow backend, a policy lookup) before or after its reply: still "whatever
				// the handler's timing" - beyond any plausible fixed budget for the negotiation (one session in 40)
				if rapid.IntRange(0, 39).Draw(t, "veryslow") == 17 {
					v := rapid.SampledFrom([][2]int{{5500, 0}, {0, 5500}, {3000, 3000}, {0, 2100}}).Draw(t, "veryslowms")
					s.D1, s.D2 = v[0], v[1]
				}
				if rapid.IntRange(0, 9).Draw(t, "pause") == 0 {
					s.PauseMs = rapid.SampledFrom([]int{300, 1200, 2500}).Draw(t, "pausems")
				}
				k := rapid.IntRange(1, 8).Draw(t, "nreqs")
				if rapid.IntRange(0, 7).Draw(t, "long") == 0 {
					k = 40
				}
				for j := 0; j < k; j++ {
					r := genReq("", false).Draw(t, "req")
					if r.Kind == "extended" && string(r.ExtName) == wire.OIDStartTLS {
						r.ExtName = []byte("1.3.6.1.1.8")
					}
					s.Reqs = append(s.Reqs, r)
				}
				c.Sessions = append(c.Sessions, s)
			}
			return c
		},
		Exec: c13Exec,
	}.Run(t)
}
