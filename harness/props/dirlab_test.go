package props

import (
	"crypto/tls"
	"crypto/x509"
	"fmt"
	"net"
	"strings"
	"sync"
	"time"

	"github.com/go-ldap/ldap/v3"
	"github.com/hashicorp/go-hclog"
	"github.com/jimlambrt/gldap/testdirectory"

	"verifharness/lab"
)

// labT is the TestingT handed to testdirectory: it records instead of failing.
type labT struct {
	mu   sync.Mutex
	errs []string
}

func (l *labT) Errorf(format string, args ...interface{}) {
	l.mu.Lock()
	if len(l.errs) < 20 {
		l.errs = append(l.errs, fmt.Sprintf(format, args...))
	}
	l.mu.Unlock()
}
func (l *labT) FailNow()           { panic("labT.FailNow: " + fmt.Sprint(l.errs)) }
func (l *labT) Log(...interface{}) {}

type dirHandle struct {
	D    *testdirectory.Directory
	T    *labT
	Mode string // plain tls mtls
	Pool *x509.CertPool
}

var (
	dirMu   sync.Mutex
	dirsByM = map[string]*dirHandle{}
)

// startDir starts a fresh directory (never stopped before process exit unless
// the caller does so).
func startDir(mode string, opts ...testdirectory.Option) (h *dirHandle, err error) {
	// the directory picks its port with listen(:0); when the machine has run out of ephemeral ports
	// (TIME_WAIT pile-up of a long run next door) that fails: wait and retry instead of giving up
	for attempt := 0; ; attempt++ {
		h, err = startDirOnce(mode, opts...)
		if err == nil || attempt >= 30 || !(strings.Contains(err.Error(), "address already in use") || strings.Contains(err.Error(), "cannot assign requested address")) {
			return h, err
		}
		time.Sleep(time.Duration(200+100*attempt) * time.Millisecond)
	}
}

func startDirOnce(mode string, opts ...testdirectory.Option) (h *dirHandle, err error) {
	t := &labT{}
	defer func() {
		if r := recover(); r != nil {
			err = fmt.Errorf("testdirectory.Start failed: %v", r)
		}
	}()
	all := []testdirectory.Option{testdirectory.WithLogger(t, hclog.NewNullLogger())}
	switch mode {
	case "plain":
		all = append(all, testdirectory.WithNoTLS(t))
	case "mtls":
		all = append(all, testdirectory.WithMTLS(t))
	}
	all = append(all, opts...)
	// The directory would pick its port with listen(:0)-and-close and listen on it again later; when another
	// process is handed the same ephemeral port in between, Run fails and Start spins forever waiting for Ready
	// (the repository's own suite hangs that way now and then). The port therefore comes from this process's
	// private range below the ephemeral ports, and Start is abandoned after 30 s should it still never return.
	if port, perr := lab.FreeLocalPort(); perr == nil {
		all = append(all, testdirectory.WithPort(t, port))
	}
	type started struct {
		d   *testdirectory.Directory
		pan interface{}
	}
	ch := make(chan started, 1)
	go func() {
		defer func() {
			if r := recover(); r != nil {
				ch <- started{nil, r}
			}
		}()
		ch <- started{testdirectory.Start(t, all...), nil}
	}()
	var d *testdirectory.Directory
	select {
	case r := <-ch:
		if r.pan != nil {
			return nil, fmt.Errorf("testdirectory.Start failed: %v", r.pan)
		}
		d = r.d
	case <-time.After(30 * time.Second):
		return nil, fmt.Errorf("%w: testdirectory.Start did not return within 30 s (its Run failed to listen and it waits for Ready forever)", lab.ErrHarness)
	}
	h = &dirHandle{D: d, T: t, Mode: mode}
	h.Pool = x509.NewCertPool()
	h.Pool.AppendCertsFromPEM([]byte(d.Cert()))
	return h, nil
}

// sharedDir returns the process-wide directory of a transport mode.
func sharedDir(mode string) (*dirHandle, error) {
	dirMu.Lock()
	defer dirMu.Unlock()
	if h, ok := dirsByM[mode]; ok {
		return h, nil
	}
	h, err := startDir(mode)
	if err != nil {
		return nil, err
	}
	dirsByM[mode] = h
	return h, nil
}

func (h *dirHandle) addr() string { return fmt.Sprintf("%s:%d", h.D.Host(), h.D.Port()) }

func (h *dirHandle) clientTLS() *tls.Config {
	return &tls.Config{RootCAs: h.Pool, ServerName: "localhost"}
}

// dial returns a go-ldap connection over the given transport:
// "plain" (directory without TLS), "tls" (ldaps), "starttls" (plain + StartTLS).
func (h *dirHandle) dial(transport string) (*ldap.Conn, error) {
	switch transport {
	case "tls":
		return ldap.DialURL("ldaps://"+h.addr(), ldap.DialWithTLSConfig(h.clientTLS()), ldap.DialWithDialer(&net.Dialer{Timeout: 15 * time.Second}))
	case "starttls":
		c, err := ldap.DialURL("ldap://"+h.addr(), ldap.DialWithDialer(&net.Dialer{Timeout: 15 * time.Second}))
		if err != nil {
			return nil, err
		}
		if err := c.StartTLS(h.clientTLS()); err != nil {
			c.Close()
			return nil, fmt.Errorf("starttls: %w", err)
		}
		return c, nil
	}
	return ldap.DialURL("ldap://"+h.addr(), ldap.DialWithDialer(&net.Dialer{Timeout: 15 * time.Second}))
}

// dirFor maps a client transport to the directory mode serving it.
func dirFor(transport string) string {
	if transport == "tls" {
		return "tls"
	}
	return "plain"
}
