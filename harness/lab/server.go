package lab

import (
	"bytes"
	"crypto/tls"
	"errors"
	"fmt"
	"net"
	"os"
	"strings"
	"sync"
	"sync/atomic"
	"time"

	ber "github.com/go-asn1-ber/asn1-ber"
	"github.com/hashicorp/go-hclog"
	"github.com/jimlambrt/gldap"
)

func init() {
	// asn1-ber allocates the declared length before reading it; cap it so that
	// hostile lengths do not turn into memory pressure inside the harness.
	ber.MaxPacketLengthBytes = 1 << 20
}

// SafeBuf is a goroutine-safe byte buffer (log capture).
type SafeBuf struct {
	mu sync.Mutex
	b  bytes.Buffer
}

func (s *SafeBuf) Write(p []byte) (int, error) {
	s.mu.Lock()
	defer s.mu.Unlock()
	if s.b.Len() > 4<<20 {
		// full (debug-level packet dumps): keep nothing more, except that a recovered panic is never lost
		if bytes.Contains(p, []byte("Caught panic")) && s.b.Len() < 5<<20 {
			return s.b.Write(p)
		}
		return len(p), nil
	}
	return s.b.Write(p)
}

func (s *SafeBuf) String() string {
	s.mu.Lock()
	defer s.mu.Unlock()
	return s.b.String()
}

func (s *SafeBuf) Reset() {
	s.mu.Lock()
	s.b.Reset()
	s.mu.Unlock()
}

// Seq is the process-wide event sequence counter: handler entry/exit, OnClose
// and client-side observations are stamped from it, so "A happened before B"
// is an integer comparison.
var seq int64

// NextSeq returns the next global sequence number.
func NextSeq() int64 { return atomic.AddInt64(&seq, 1) }

// Server is a running gldap server under observation.
type Server struct {
	S      *gldap.Server
	Addr   string
	Log    *SafeBuf
	RunErr chan error
	runRet int32
	opts   ServerOpts
}

// ServerOpts configures StartServer.
type ServerOpts struct {
	TLS             *tls.Config
	ReadTimeout     time.Duration
	WriteTimeout    time.Duration
	DisableRecovery bool
	OnClose         func(int)
	Host            string // default 127.0.0.1
	LogLevel        hclog.Level
}

// ErrHarness marks harness-side trouble (not a property verdict).
var ErrHarness = errors.New("harness")

// StartServer starts a gldap server on a kernel-chosen port. When the kernel
// has no free ephemeral port left (tens of thousands of connections of earlier
// cases in TIME_WAIT during long runs) it waits and retries for up to a minute.
func StartServer(mux *gldap.Mux, o ServerOpts) (*Server, error) {
	var lastErr error
	for attempt := 0; attempt < 300; attempt++ {
		s, err := startServerOnce(mux, o)
		if err == nil {
			return s, nil
		}
		lastErr = err
		if !strings.Contains(err.Error(), "address already in use") && !strings.Contains(err.Error(), "cannot assign requested address") {
			return nil, err
		}
		time.Sleep(200 * time.Millisecond)
	}
	return nil, lastErr
}

func startServerOnce(mux *gldap.Mux, o ServerOpts) (*Server, error) {
	buf := &SafeBuf{}
	lvl := o.LogLevel
	if lvl == hclog.NoLevel {
		lvl = hclog.Error
	}
	logger := hclog.New(&hclog.LoggerOptions{Name: "lab", Level: lvl, Output: buf})
	opts := []gldap.Option{gldap.WithLogger(logger)}
	if o.ReadTimeout != 0 {
		opts = append(opts, gldap.WithReadTimeout(o.ReadTimeout))
	}
	if o.WriteTimeout != 0 {
		opts = append(opts, gldap.WithWriteTimeout(o.WriteTimeout))
	}
	if o.DisableRecovery {
		opts = append(opts, gldap.WithDisablePanicRecovery())
	}
	if o.OnClose != nil {
		opts = append(opts, gldap.WithOnClose(o.OnClose))
	}
	s, err := gldap.NewServer(opts...)
	if err != nil {
		return nil, fmt.Errorf("%w: NewServer: %v", ErrHarness, err)
	}
	if mux != nil {
		if err := s.Router(mux); err != nil {
			return nil, fmt.Errorf("%w: Router: %v", ErrHarness, err)
		}
	}
	host := o.Host
	if host == "" {
		host = "127.0.0.1"
	}
	srv := &Server{S: s, Log: buf, RunErr: make(chan error, 1), opts: o}
	var runOpts []gldap.Option
	if o.TLS != nil {
		runOpts = append(runOpts, gldap.WithTLSConfig(o.TLS))
	}
	go func() {
		err := s.Run(host+":0", runOpts...)
		atomic.StoreInt32(&srv.runRet, 1)
		srv.RunErr <- err
	}()
	deadline := time.Now().Add(10 * time.Second)
	for {
		if a := s.VerifListenAddr(); a != nil && s.Ready() {
			srv.Addr = a.String()
			return srv, nil
		}
		if atomic.LoadInt32(&srv.runRet) == 1 {
			return nil, fmt.Errorf("%w: Run returned early: %v", ErrHarness, <-srv.RunErr)
		}
		if time.Now().After(deadline) {
			return nil, fmt.Errorf("%w: server did not become ready", ErrHarness)
		}
		time.Sleep(50 * time.Microsecond)
	}
}

// RunReturned reports whether Run has returned.
func (s *Server) RunReturned() bool { return atomic.LoadInt32(&s.runRet) == 1 }

// Stop calls Server.Stop and waits for it (and Run) up to d. It returns an
// error mentioning "timeout" when the bound is exceeded.
func (s *Server) Stop(d time.Duration) error {
	done := make(chan error, 1)
	go func() { done <- s.S.Stop() }()
	select {
	case err := <-done:
		if err != nil {
			return err
		}
	case <-time.After(d):
		return errors.New("timeout waiting for Stop")
	}
	select {
	case err := <-s.RunErr:
		s.RunErr <- err
		return err
	case <-time.After(d):
		return errors.New("timeout waiting for Run to return")
	}
}

// PanicLogged reports whether the connection-level recover logged a panic.
func (s *Server) PanicLogged() (string, bool) {
	l := s.Log.String()
	i := strings.Index(l, "Caught panic")
	if i < 0 {
		return "", false
	}
	end := i + 400
	if end > len(l) {
		end = len(l)
	}
	return l[i:end], true
}

var portCounter int64

// FreeLocalPort returns a loopback port that is free right now. Ports come
// from a per-process slice of the range below the kernel's ephemeral range:
// servers of other harness processes (which listen on kernel-chosen ephemeral
// ports) and other shards can then never take the port over while a property
// checks that THIS server has released it.
func FreeLocalPort() (int, error) {
	base := 10000 + (os.Getpid()%200)*100
	for i := 0; i < 100; i++ {
		p := base + int(atomic.AddInt64(&portCounter, 1)%100)
		l4, err := net.Listen("tcp", fmt.Sprintf("127.0.0.1:%d", p))
		if err != nil {
			continue
		}
		l6, err := net.Listen("tcp", fmt.Sprintf("[::1]:%d", p))
		l4.Close()
		if err != nil {
			continue
		}
		l6.Close()
		return p, nil
	}
	return 0, fmt.Errorf("%w: no free port in the process range %d..%d", ErrHarness, base, base+99)
}

// StartTLSHandler is a conforming StartTLS handler: success response, then the
// handshake on the request's connection.
func StartTLSHandler(cfg *tls.Config) gldap.HandlerFunc {
	return func(w *gldap.ResponseWriter, r *gldap.Request) {
		res := r.NewExtendedResponse(gldap.WithResponseCode(gldap.ResultSuccess))
		res.SetResponseName(gldap.ExtendedOperationStartTLS)
		if err := w.Write(res); err != nil {
			return
		}
		_ = r.StartTLS(cfg)
	}
}

// Connect opens a client connection over the given transport: "plain", "tls"
// (the server must have been started with TLS) or "starttls" (the mux must
// route StartTLS to StartTLSHandler).
func Connect(addr, transport string, clientCfg *tls.Config) (*Client, error) {
	switch transport {
	case "tls":
		return DialTLS(addr, clientCfg)
	case "starttls":
		c, err := Dial(addr)
		if err != nil {
			return nil, err
		}
		if err := c.StartTLS(clientCfg, 2147483600); err != nil {
			c.Close()
			return nil, err
		}
		return c, nil
	}
	return Dial(addr)
}
