package lab

import (
	"fmt"
	"sync"
	"sync/atomic"
	"time"
)

// The stall monitor measures whether THIS process is being scheduled: a
// goroutine that only sleeps 2 ms at a time records how late it wakes up. On a
// healthy machine it is late by microseconds; when the machine is overloaded
// (or out of memory and thrashing) it is late by seconds. A bound missed while
// the monitor itself was not scheduled says nothing about the code under test,
// so the verdict of such a case is discarded as inconclusive - "a time budget
// hit means inconclusive, never a violation". Defects of the code under test
// cannot stall the monitor: it shares nothing with it, and the Go scheduler
// preempts spinning goroutines every 10 ms.

const stallTick = 2 * time.Millisecond

type stallRec struct {
	at  time.Time
	dur time.Duration
}

var (
	stallOnce  sync.Once
	stallMu    sync.Mutex
	stallRecs  []stallRec // stalls >= 100 ms, newest last, bounded
	stallTicks int64
)

func startStallMonitor() {
	stallOnce.Do(func() {
		go func() {
			for {
				t := time.Now()
				time.Sleep(stallTick)
				late := time.Since(t) - stallTick
				atomic.AddInt64(&stallTicks, 1)
				if late >= 100*time.Millisecond {
					stallMu.Lock()
					stallRecs = append(stallRecs, stallRec{time.Now(), late})
					if len(stallRecs) > 256 {
						stallRecs = stallRecs[len(stallRecs)-128:]
					}
					stallMu.Unlock()
				}
			}
		}()
	})
}

// StallMark is the starting point of a measurement.
type StallMark struct {
	at    time.Time
	ticks int64
}

// MarkStall starts a measurement (and the monitor, on first use).
func MarkStall() StallMark {
	startStallMonitor()
	return StallMark{time.Now(), atomic.LoadInt64(&stallTicks)}
}

// StallReport says how this process was scheduled since the mark.
type StallReport struct {
	Elapsed  time.Duration
	MaxStall time.Duration
	Ticks    int64
	Expected int64
}

func (m StallMark) Since() StallReport {
	r := StallReport{Elapsed: time.Since(m.at), Ticks: atomic.LoadInt64(&stallTicks) - m.ticks}
	// a sleeping goroutine wakes a little late even on an idle machine: expect one tick per 2.2 ms
	r.Expected = int64(r.Elapsed / (stallTick + stallTick/10))
	stallMu.Lock()
	for _, s := range stallRecs {
		if s.at.After(m.at) && s.dur > r.MaxStall {
			r.MaxStall = s.dur
		}
	}
	stallMu.Unlock()
	return r
}

// Starved reports whether verdicts that depend on elapsed time are unreliable:
// the monitor was not scheduled for a whole second at a stretch, or over a case
// of at least two seconds it received less than a third of its ticks.
func (r StallReport) Starved() bool {
	if r.MaxStall >= time.Second {
		return true
	}
	return r.Elapsed >= 2*time.Second && r.Ticks*3 < r.Expected
}

func (r StallReport) String() string {
	return fmt.Sprintf("longest scheduling stall %v, %d of %d monitor ticks in %v", r.MaxStall.Round(time.Millisecond), r.Ticks, r.Expected, r.Elapsed.Round(time.Millisecond))
}
