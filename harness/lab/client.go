package lab

import (
	"crypto/tls"
	"errors"
	"fmt"
	"io"
	"net"
	"os"
	"strings"
	"time"

	"verifharness/wire"
)

// Client is a raw LDAP client built on the independent codec.
type Client struct {
	C      net.Conn
	stream wire.Stream
	eof    bool
	rdErr  error
	// RawLog, when non-nil, receives every byte read.
	RawLog *[]byte
}

// Dial opens a plain TCP connection.
func Dial(addr string) (*Client, error) {
	var c net.Conn
	var err error
	for attempt := 0; attempt < 150; attempt++ {
		c, err = net.DialTimeout("tcp", addr, 5*time.Second)
		// no free ephemeral port for the client side (TIME_WAIT pile-up in long runs): wait
		if err == nil || !strings.Contains(err.Error(), "cannot assign requested address") {
			break
		}
		time.Sleep(200 * time.Millisecond)
	}
	if err != nil {
		return nil, err
	}
	return &Client{C: c}, nil
}

// DialTLS opens a TLS connection.
func DialTLS(addr string, cfg *tls.Config) (*Client, error) {
	d := &net.Dialer{Timeout: 5 * time.Second}
	c, err := tls.DialWithDialer(d, "tcp", addr, cfg)
	if err != nil {
		return nil, err
	}
	return &Client{C: c}, nil
}

// Wrap wraps an existing connection.
func Wrap(c net.Conn) *Client { return &Client{C: c} }

// Send writes bytes.
func (c *Client) Send(b []byte) error {
	_ = c.C.SetWriteDeadline(time.Now().Add(20 * time.Second))
	_, err := c.C.Write(b)
	return err
}

// Close closes the connection.
func (c *Client) Close() { _ = c.C.Close() }

// Abort closes the connection abortively (RST, no TIME_WAIT). High-volume
// parts whose property does not depend on how the client leaves use it so
// that long runs do not exhaust the ephemeral ports.
func (c *Client) Abort() {
	nc := c.C
	if tc, ok := nc.(*tls.Conn); ok {
		nc = tc.NetConn()
	}
	if t, ok := nc.(*net.TCPConn); ok {
		_ = t.SetLinger(0)
	}
	_ = c.C.Close()
}

// ErrTimeout is returned by Next when no complete frame arrived in time.
var ErrTimeout = errors.New("lab: timeout waiting for a frame")

// FrameError is a violation of the framing / strict LDAPMessage grammar seen
// by the client.
type FrameError struct{ Err error }

func (e *FrameError) Error() string { return "malformed frame from server: " + e.Err.Error() }

// Next returns the next strictly parsed LDAPMessage. io.EOF means the peer
// closed on a frame boundary; a *FrameError means the bytes received are not
// a well-formed LDAPMessage (or the stream ended inside a frame).
func (c *Client) Next(timeout time.Duration) (*wire.Message, error) {
	deadline := time.Now().Add(timeout)
	buf := make([]byte, 32<<10)
	for {
		n, raw, ok, err := c.stream.Next()
		if err != nil {
			return nil, &FrameError{err}
		}
		if ok {
			m, err := wire.ParseMessage(n)
			if err != nil {
				return nil, &FrameError{err}
			}
			m.Raw = raw
			return m, nil
		}
		if c.eof {
			if c.stream.Pending() > 0 {
				return nil, &FrameError{fmt.Errorf("stream ended inside a frame (%d pending bytes): %v", c.stream.Pending(), c.rdErr)}
			}
			if c.rdErr != nil && !errors.Is(c.rdErr, io.EOF) {
				return nil, c.rdErr
			}
			return nil, io.EOF
		}
		_ = c.C.SetReadDeadline(deadline)
		k, err := c.C.Read(buf)
		if k > 0 {
			c.stream.Feed(buf[:k])
			if c.RawLog != nil {
				*c.RawLog = append(*c.RawLog, buf[:k]...)
			}
		}
		if err != nil {
			var ne net.Error
			if errors.As(err, &ne) && ne.Timeout() || errors.Is(err, os.ErrDeadlineExceeded) {
				if k > 0 {
					continue
				}
				return nil, ErrTimeout
			}
			c.eof = true
			c.rdErr = err
		}
	}
}

// WaitClosed reads until the peer closes the connection (returning nil), or
// the timeout passes. Frames received meanwhile are returned.
func (c *Client) WaitClosed(timeout time.Duration) ([]*wire.Message, error) {
	var got []*wire.Message
	deadline := time.Now().Add(timeout)
	for {
		left := time.Until(deadline)
		if left <= 0 {
			return got, ErrTimeout
		}
		m, err := c.Next(left)
		if err == nil {
			got = append(got, m)
			continue
		}
		if errors.Is(err, io.EOF) {
			return got, nil
		}
		var fe *FrameError
		if errors.As(err, &fe) {
			return got, err
		}
		if errors.Is(err, ErrTimeout) {
			return got, err
		}
		// reset by peer etc: the connection is closed
		return got, nil
	}
}

// StartTLS sends a StartTLS extended request, expects a successful
// ExtendedResponse and upgrades the connection.
func (c *Client) StartTLS(cfg *tls.Config, msgID int64) error {
	return c.StartTLSWithTrailer(cfg, msgID, nil)
}

// StartTLSWithTrailer is StartTLS by a client that puts further plaintext
// bytes behind its StartTLS request in the same write (an injection attempt:
// whatever arrives in plaintext must never be served inside the tunnel).
func (c *Client) StartTLSWithTrailer(cfg *tls.Config, msgID int64, trailer []byte) error {
	req := wire.Req{Kind: "extended", MsgID: msgID, ExtName: []byte(wire.OIDStartTLS)}
	if err := c.Send(append(req.Encode(), trailer...)); err != nil {
		return err
	}
	m, err := c.Next(10 * time.Second)
	if err != nil {
		return fmt.Errorf("starttls response: %w", err)
	}
	res, err := m.Result()
	if err != nil || m.ID != msgID || res.Code != 0 {
		return fmt.Errorf("starttls refused: id=%d err=%v", m.ID, err)
	}
	if c.stream.Pending() != 0 {
		return fmt.Errorf("starttls: %d plaintext bytes after the response", c.stream.Pending())
	}
	tc := tls.Client(c.C, cfg)
	_ = c.C.SetDeadline(time.Now().Add(10 * time.Second))
	if err := tc.Handshake(); err != nil {
		return fmt.Errorf("starttls handshake: %w", err)
	}
	_ = c.C.SetDeadline(time.Time{})
	c.C = tc
	c.stream = wire.Stream{}
	return nil
}
