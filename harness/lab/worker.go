package lab

import (
	"bufio"
	"bytes"
	"context"
	"encoding/json"
	"fmt"
	"os"
	"os/exec"
	"strings"
	"sync"
	"time"
)

// WorkerResult is what a child reports for one scenario.
type WorkerResult struct {
	Index     int    `json:"index"`
	OK        bool   `json:"ok"`
	FP        string `json:"fp,omitempty"`
	Msg       string `json:"msg,omitempty"`
	Delivered bool   `json:"delivered"` // the fault really happened (non-triviality)
	Skipped   string `json:"skipped,omitempty"`
	// filled by the parent:
	Died     bool   `json:"died,omitempty"` // the child process died / hung while running this scenario
	Hung     bool   `json:"hung,omitempty"` // killed by the parent's deadline
	ExitInfo string `json:"exit_info,omitempty"`
	Stderr   string `json:"stderr,omitempty"`
}

// InWorker reports whether this process is a worker child and of which kind.
func InWorker() string { return os.Getenv("VERIF_WORKER_KIND") }

// WorkerMain is the child side: scenarios (one JSON document per line) are
// read from stdin; for each one a begin marker, the result and finally a done
// marker are printed as JSON lines on stdout.
func WorkerMain(run func(index int, raw json.RawMessage) WorkerResult) {
	in := bufio.NewScanner(os.Stdin)
	in.Buffer(make([]byte, 1<<20), 1<<26)
	out := bufio.NewWriter(os.Stdout)
	emit := func(v interface{}) {
		b, _ := json.Marshal(v)
		out.WriteString("@@W " + string(b) + "\n")
		out.Flush()
	}
	i := 0
	for in.Scan() {
		line := strings.TrimSpace(in.Text())
		if line == "" {
			continue
		}
		var env struct {
			Index int             `json:"index"`
			Case  json.RawMessage `json:"case"`
		}
		if err := json.Unmarshal([]byte(line), &env); err != nil {
			continue
		}
		emit(map[string]interface{}{"begin": env.Index})
		r := run(env.Index, env.Case)
		r.Index = env.Index
		emit(map[string]interface{}{"end": r})
		i++
	}
	emit(map[string]interface{}{"done": i})
}

// RunWorkers executes the scenarios in child processes of the given kind. A
// child that dies or exceeds perScenario is attributed to the scenario whose
// begin marker was seen last; the remaining scenarios continue in a fresh
// child. Results are returned in scenario order.
func RunWorkers(kind string, cases []interface{}, perScenario time.Duration, extraEnv ...string) ([]WorkerResult, error) {
	results := make([]WorkerResult, len(cases))
	done := make([]bool, len(cases))
	next := 0
	for next < len(cases) {
		// batch = all remaining scenarios
		var stdin bytes.Buffer
		for i := next; i < len(cases); i++ {
			if done[i] {
				continue
			}
			b, err := json.Marshal(map[string]interface{}{"index": i, "case": cases[i]})
			if err != nil {
				return nil, err
			}
			stdin.Write(b)
			stdin.WriteByte('\n')
		}
		ctx, cancel := context.WithCancel(context.Background())
		cmd := exec.CommandContext(ctx, os.Args[0], "-test.run", "^TestWorkerMain$", "-test.timeout", "0")
		cmd.Env = append(os.Environ(), "VERIF_WORKER_KIND="+kind, "VERIF_STATS=", "GOTRACEBACK=all")
		cmd.Env = append(cmd.Env, extraEnv...)
		cmd.Stdin = &stdin
		var stderr bytes.Buffer
		cmd.Stderr = &stderr
		stdout, err := cmd.StdoutPipe()
		if err != nil {
			cancel()
			return nil, err
		}
		if err := cmd.Start(); err != nil {
			cancel()
			return nil, err
		}
		var mu sync.Mutex
		current := -1
		lastProgress := time.Now()
		finished := false
		readerDone := make(chan struct{})
		go func() {
			defer close(readerDone)
			sc := bufio.NewScanner(stdout)
			sc.Buffer(make([]byte, 1<<20), 1<<26)
			for sc.Scan() {
				l := sc.Text()
				if !strings.HasPrefix(l, "@@W ") {
					continue
				}
				var m struct {
					Begin *int          `json:"begin"`
					End   *WorkerResult `json:"end"`
					Done  *int          `json:"done"`
				}
				if json.Unmarshal([]byte(l[4:]), &m) != nil {
					continue
				}
				mu.Lock()
				lastProgress = time.Now()
				switch {
				case m.Begin != nil:
					current = *m.Begin
				case m.End != nil:
					if m.End.Index >= 0 && m.End.Index < len(results) {
						results[m.End.Index] = *m.End
						done[m.End.Index] = true
					}
					current = -1
				case m.Done != nil:
					finished = true
				}
				mu.Unlock()
			}
		}()
		// watchdog
		hung := false
		waitCh := make(chan error, 1)
		go func() { <-readerDone; waitCh <- cmd.Wait() }()
		var werr error
	loop:
		for {
			select {
			case werr = <-waitCh:
				break loop
			case <-time.After(200 * time.Millisecond):
				mu.Lock()
				stale := time.Since(lastProgress) > perScenario
				mu.Unlock()
				if stale {
					hung = true
					cancel() // kills the child
				}
			}
		}
		cancel()
		mu.Lock()
		cur, fin := current, finished
		mu.Unlock()
		if fin && werr == nil {
			break
		}
		if cur >= 0 && cur < len(results) && !done[cur] {
			tail := stderr.String()
			if len(tail) > 6000 {
				tail = tail[:3000] + "\n...\n" + tail[len(tail)-3000:]
			}
			results[cur] = WorkerResult{Index: cur, OK: false, Died: true, Hung: hung, ExitInfo: fmt.Sprint(werr), Stderr: tail, Delivered: true}
			done[cur] = true
		} else if !fin {
			// died between scenarios: nothing to attribute; give up on the rest
			return results, fmt.Errorf("worker died outside a scenario: %v: %s", werr, stderr.String())
		}
		// continue with what is left
		next = 0
		for next < len(cases) && done[next] {
			next++
		}
	}
	return results, nil
}
