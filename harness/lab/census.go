package lab

import (
	"bufio"
	"runtime"
	"sort"
	"strings"
	"time"
)

// GoroutineInfo summarises one goroutine of an all-goroutine dump.
type GoroutineInfo struct {
	ID    string
	State string
	Funcs []string // function names, innermost first
}

// Goroutines parses runtime.Stack(all).
func Goroutines() []GoroutineInfo {
	buf := make([]byte, 1<<20)
	for {
		n := runtime.Stack(buf, true)
		if n < len(buf) {
			buf = buf[:n]
			break
		}
		buf = make([]byte, 2*len(buf))
	}
	var out []GoroutineInfo
	var cur *GoroutineInfo
	sc := bufio.NewScanner(strings.NewReader(string(buf)))
	sc.Buffer(make([]byte, 1<<20), 1<<24)
	for sc.Scan() {
		l := sc.Text()
		if strings.HasPrefix(l, "goroutine ") {
			f := strings.Fields(l)
			g := GoroutineInfo{}
			if len(f) >= 2 {
				g.ID = f[1]
			}
			if i := strings.Index(l, "["); i >= 0 {
				g.State = strings.Trim(l[i:], "[]:")
			}
			out = append(out, g)
			cur = &out[len(out)-1]
			continue
		}
		if cur == nil || l == "" || strings.HasPrefix(l, "\t") || strings.HasPrefix(l, "created by") {
			continue
		}
		fn := l
		if i := strings.LastIndex(fn, "("); i > 0 {
			fn = fn[:i]
		}
		cur.Funcs = append(cur.Funcs, fn)
	}
	return out
}

// Has reports whether any frame of the goroutine contains sub.
func (g GoroutineInfo) Has(sub string) bool {
	for _, f := range g.Funcs {
		if strings.Contains(f, sub) {
			return true
		}
	}
	return false
}

// GldapGoroutines returns the goroutines with a frame inside gldap (not the harness).
func GldapGoroutines() []GoroutineInfo {
	var out []GoroutineInfo
	for _, g := range Goroutines() {
		if g.Has("github.com/jimlambrt/gldap.") {
			out = append(out, g)
		}
	}
	return out
}

func censusKey(gs []GoroutineInfo) string {
	var ks []string
	for _, g := range gs {
		top := ""
		if len(g.Funcs) > 0 {
			top = g.Funcs[0]
		}
		st := g.State
		if i := strings.Index(st, ","); i >= 0 {
			st = st[:i] // drop "N minutes"
		}
		ks = append(ks, g.ID+"|"+st+"|"+top)
	}
	sort.Strings(ks)
	return strings.Join(ks, "\n")
}

// StableCensus takes two censuses of the gldap goroutines 'gap' apart and
// reports whether they are identical and none of them is runnable/running -
// the evidence that a missed bound is a stable deadlock, not slowness.
func StableCensus(gap time.Duration) (stable bool, dump []GoroutineInfo) {
	a := GldapGoroutines()
	time.Sleep(gap)
	b := GldapGoroutines()
	if censusKey(a) != censusKey(b) {
		return false, b
	}
	for _, g := range b {
		if strings.HasPrefix(g.State, "running") || strings.HasPrefix(g.State, "runnable") {
			// the goroutine taking the dump shows as running; it has no gldap frame, so any
			// running gldap goroutine means progress is still possible
			return false, b
		}
	}
	return true, b
}

// Describe renders goroutines compactly for failure messages.
func Describe(gs []GoroutineInfo, max int) string {
	var sb strings.Builder
	for i, g := range gs {
		if i >= max {
			sb.WriteString("...")
			break
		}
		n := len(g.Funcs)
		if n > 18 {
			n = 18
		}
		sb.WriteString("g" + g.ID + "[" + g.State + "]: " + strings.Join(g.Funcs[:n], " < ") + "\n")
	}
	return sb.String()
}
