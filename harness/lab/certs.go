package lab

import (
	"crypto/ecdsa"
	"crypto/elliptic"
	"crypto/rand"
	"crypto/tls"
	"crypto/x509"
	"crypto/x509/pkix"
	"math/big"
	"net"
	"sync"
	"time"
)

// PKI is a small certificate authority for the harness.
type PKI struct {
	CACert *x509.Certificate
	CAKey  *ecdsa.PrivateKey
	Pool   *x509.CertPool
	Server tls.Certificate
	Client tls.Certificate
}

func newCA(cn string) (*x509.Certificate, *ecdsa.PrivateKey, error) {
	key, err := ecdsa.GenerateKey(elliptic.P256(), rand.Reader)
	if err != nil {
		return nil, nil, err
	}
	serial, _ := rand.Int(rand.Reader, big.NewInt(1<<62))
	tmpl := &x509.Certificate{
		SerialNumber: serial, Subject: pkix.Name{CommonName: cn},
		NotBefore: time.Now().Add(-time.Hour), NotAfter: time.Now().Add(48 * time.Hour),
		IsCA: true, BasicConstraintsValid: true,
		KeyUsage:    x509.KeyUsageCertSign | x509.KeyUsageDigitalSignature,
		ExtKeyUsage: []x509.ExtKeyUsage{x509.ExtKeyUsageClientAuth, x509.ExtKeyUsageServerAuth},
	}
	der, err := x509.CreateCertificate(rand.Reader, tmpl, tmpl, &key.PublicKey, key)
	if err != nil {
		return nil, nil, err
	}
	cert, err := x509.ParseCertificate(der)
	return cert, key, err
}

// Leaf issues a leaf certificate signed by the CA (or self-signed when ca is nil).
func Leaf(ca *x509.Certificate, caKey *ecdsa.PrivateKey, cn string) (tls.Certificate, error) {
	key, err := ecdsa.GenerateKey(elliptic.P256(), rand.Reader)
	if err != nil {
		return tls.Certificate{}, err
	}
	serial, _ := rand.Int(rand.Reader, big.NewInt(1<<62))
	tmpl := &x509.Certificate{
		SerialNumber: serial, Subject: pkix.Name{CommonName: cn},
		NotBefore: time.Now().Add(-time.Hour), NotAfter: time.Now().Add(48 * time.Hour),
		KeyUsage:    x509.KeyUsageDigitalSignature,
		ExtKeyUsage: []x509.ExtKeyUsage{x509.ExtKeyUsageClientAuth, x509.ExtKeyUsageServerAuth},
		DNSNames:    []string{"localhost"}, IPAddresses: []net.IP{net.IPv4(127, 0, 0, 1), net.IPv6loopback},
		BasicConstraintsValid: true,
	}
	parent, signer := tmpl, key
	if ca != nil {
		parent, signer = ca, caKey
	}
	der, err := x509.CreateCertificate(rand.Reader, tmpl, parent, &key.PublicKey, signer)
	if err != nil {
		return tls.Certificate{}, err
	}
	return tls.Certificate{Certificate: [][]byte{der}, PrivateKey: key}, nil
}

// NewPKI creates a CA with one server and one client certificate.
func NewPKI(name string) (*PKI, error) {
	ca, key, err := newCA(name)
	if err != nil {
		return nil, err
	}
	p := &PKI{CACert: ca, CAKey: key, Pool: x509.NewCertPool()}
	p.Pool.AddCert(ca)
	if p.Server, err = Leaf(ca, key, "server"); err != nil {
		return nil, err
	}
	if p.Client, err = Leaf(ca, key, "client"); err != nil {
		return nil, err
	}
	return p, nil
}

var (
	pkiOnce sync.Once
	pkiMain *PKI
	pkiAlt  *PKI
	pkiErr  error
)

// SharedPKI returns the process-wide main CA and a second, unrelated CA.
func SharedPKI() (*PKI, *PKI, error) {
	pkiOnce.Do(func() {
		pkiMain, pkiErr = NewPKI("verif main CA")
		if pkiErr == nil {
			pkiAlt, pkiErr = NewPKI("verif other CA")
		}
	})
	return pkiMain, pkiAlt, pkiErr
}

// ServerTLS returns a server-authentication-only configuration.
func (p *PKI) ServerTLS() *tls.Config {
	return &tls.Config{Certificates: []tls.Certificate{p.Server}}
}

// ServerMTLS requires and verifies client certificates issued by the CA.
func (p *PKI) ServerMTLS() *tls.Config {
	return &tls.Config{Certificates: []tls.Certificate{p.Server}, ClientCAs: p.Pool, ClientAuth: tls.RequireAndVerifyClientCert}
}

// ClientTLS trusts the CA; withCert adds the client certificate.
func (p *PKI) ClientTLS(withCert bool) *tls.Config {
	c := &tls.Config{RootCAs: p.Pool, ServerName: "localhost"}
	if withCert {
		c.Certificates = []tls.Certificate{p.Client}
	}
	return c
}
