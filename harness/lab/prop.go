package lab

import (
	"encoding/json"
	"fmt"
	"os"
	"testing"

	"pgregory.net/rapid"
)

// Prop bundles generator and executor of one property part. The generator
// makes every random choice (through rapid, so that shrinking and replay
// work); the executor is a deterministic function of the generated case and
// the code under test, and is also what a replay file is fed to.
type Prop[C any] struct {
	ID   string
	Part string
	Rule string
	Gen  func(t *rapid.T) C
	// Exec runs the case and returns nil when the property held.
	Exec func(c C, st *Stats) *Fail
}

// Run drives the property: replay mode when VERIF_REPLAY is set, rapid
// otherwise.
func (p Prop[C]) Run(t *testing.T) {
	st := GetStats(p.ID, p.Part)
	st.SetRule(p.Rule)
	defer FlushAll()
	if f := os.Getenv("VERIF_REPLAY"); f != "" {
		var doc struct {
			Part string          `json:"part"`
			Case json.RawMessage `json:"case"`
		}
		b, err := os.ReadFile(f)
		if err != nil {
			t.Skipf("cannot read replay file: %v", err)
		}
		if err := json.Unmarshal(b, &doc); err != nil {
			t.Skipf("bad replay file: %v", err)
		}
		if doc.Part != p.Part {
			t.Skipf("replay file is for part %q", doc.Part)
		}
		var c C
		if err := json.Unmarshal(doc.Case, &c); err != nil {
			t.Fatalf("bad replay case: %v", err)
		}
		// schedule-dependent failures may need repetition
		reps := EnvInt("VERIF_REPLAY_REPS", 1)
		for i := 0; i < reps; i++ {
			if fail := p.Exec(c, st); fail != nil {
				st.Report(fail, c)
				t.Fatalf("REPLAY FAILED %s", fail.Error())
			}
		}
		fmt.Println("REPLAY PASSED")
		return
	}
	rapid.Check(t, func(rt *rapid.T) {
		c := p.Gen(rt)
		mark := MarkStall()
		if fail := p.Exec(c, st); fail != nil {
			if sr := mark.Since(); sr.Starved() {
				// the process itself was not being scheduled while the case ran: whatever bound the
				// case missed says nothing about the code under test (exit 2, never a VIOLATION)
				st.Inconclusive(fmt.Sprintf("verdict %q discarded, this process was starved of CPU while the case ran (%s)", fail.Fingerprint, sr))
				return
			}
			if st.Report(fail, c) {
				return // known finding: counted, search continues
			}
			rt.Fatalf("%s", fail.Error())
		}
	})
}

// JSONKey returns a stable byte key of a case for distinctness hashing.
func JSONKey(v interface{}) []byte {
	b, _ := json.Marshal(v)
	return b
}

// SkipIfReplayOther skips a hand-rolled (non-Prop) test in replay mode when
// the replay file belongs to another part.
func SkipIfReplayOther(t *testing.T, part string) {
	f := os.Getenv("VERIF_REPLAY")
	if f == "" {
		return
	}
	var doc struct {
		Part string `json:"part"`
	}
	b, err := os.ReadFile(f)
	if err != nil || json.Unmarshal(b, &doc) != nil || doc.Part != part {
		t.Skipf("replay file is for another part")
	}
}

// ReplayInto runs exec on the case of the replay file when in replay mode for
// this part and reports true if it did (hand-rolled enumerations use it).
func ReplayInto[C any](t *testing.T, st *Stats, part string, exec func(C, *Stats) *Fail) bool {
	f := os.Getenv("VERIF_REPLAY")
	if f == "" {
		return false
	}
	var doc struct {
		Part string          `json:"part"`
		Case json.RawMessage `json:"case"`
	}
	b, err := os.ReadFile(f)
	if err != nil || json.Unmarshal(b, &doc) != nil || doc.Part != part {
		t.Skipf("replay file is for another part")
		return true
	}
	var c C
	if err := json.Unmarshal(doc.Case, &c); err != nil {
		t.Fatalf("bad replay case: %v", err)
	}
	if fail := exec(c, st); fail != nil {
		st.Report(fail, c)
		t.Fatalf("REPLAY FAILED %s", fail.Error())
	}
	fmt.Println("REPLAY PASSED")
	return true
}
