package lab

import (
	"net"
	"sync"
)

// Wiretap is a TCP proxy that records every byte in both directions.
type Wiretap struct {
	Addr string
	ln   net.Listener
	to   string
	mu   sync.Mutex
	c2s  []byte // client -> server
	s2c  []byte // server -> client
	wg   sync.WaitGroup
}

// NewWiretap listens on loopback and forwards ONE connection to target.
func NewWiretap(target string) (*Wiretap, error) {
	ln, err := net.Listen("tcp", "127.0.0.1:0")
	if err != nil {
		return nil, err
	}
	w := &Wiretap{Addr: ln.Addr().String(), ln: ln, to: target}
	go w.serve()
	return w, nil
}

func (w *Wiretap) serve() {
	for {
		c, err := w.ln.Accept()
		if err != nil {
			return
		}
		s, err := net.Dial("tcp", w.to)
		if err != nil {
			c.Close()
			continue
		}
		w.wg.Add(2)
		go w.pipe(c, s, &w.c2s)
		go w.pipe(s, c, &w.s2c)
	}
}

func (w *Wiretap) pipe(src, dst net.Conn, rec *[]byte) {
	defer w.wg.Done()
	buf := make([]byte, 32<<10)
	for {
		n, err := src.Read(buf)
		if n > 0 {
			w.mu.Lock()
			if len(*rec) < 8<<20 {
				*rec = append(*rec, buf[:n]...)
			}
			w.mu.Unlock()
			if _, werr := dst.Write(buf[:n]); werr != nil {
				break
			}
		}
		if err != nil {
			break
		}
	}
	// propagate the close
	if tc, ok := dst.(*net.TCPConn); ok {
		_ = tc.CloseWrite()
	} else {
		_ = dst.Close()
	}
}

// Close stops the proxy.
func (w *Wiretap) Close() { _ = w.ln.Close() }

// Captured returns copies of the two recorded byte streams.
func (w *Wiretap) Captured() (c2s, s2c []byte) {
	w.mu.Lock()
	defer w.mu.Unlock()
	return append([]byte{}, w.c2s...), append([]byte{}, w.s2c...)
}
