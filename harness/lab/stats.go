// Package lab is the server laboratory of the verification harness: run
// statistics and evidence, known-finding handling, recording handlers, raw
// clients and worker processes.
package lab

import (
	"bufio"
	"crypto/sha256"
	"encoding/binary"
	"encoding/json"
	"fmt"
	"os"
	"path/filepath"
	"sort"
	"strconv"
	"strings"
	"sync"
	"time"
)

// Finding is one violation candidate recorded by a property.
type Finding struct {
	Property    string `json:"property"`
	Fingerprint string `json:"fingerprint"`
	Message     string `json:"message"`
	Replay      string `json:"replay,omitempty"` // path of the replay file
	Known       bool   `json:"known"`
	Count       int64  `json:"count"`
}

// Stats collects what a run actually covered. One per test process part.
type Stats struct {
	mu           sync.Mutex
	Property     string
	Part         string
	start        time.Time
	evaluations  int64
	nontrivial   map[[8]byte]struct{}
	classes      map[string]int64
	samples      []json.RawMessage
	findings     map[string]*Finding
	excluded     int64
	inconclusive []string
	extra        map[string]interface{}
	exhaustive   bool
	rule         string
	maxSamples   int
}

var (
	statsMu  sync.Mutex
	allStats = map[string]*Stats{}
)

// GetStats returns the process-wide stats object of a property part.
func GetStats(property, part string) *Stats {
	statsMu.Lock()
	defer statsMu.Unlock()
	k := property + "/" + part
	if s, ok := allStats[k]; ok {
		return s
	}
	s := &Stats{
		Property: property, Part: part, start: time.Now(),
		nontrivial: map[[8]byte]struct{}{}, classes: map[string]int64{},
		findings: map[string]*Finding{}, extra: map[string]interface{}{}, maxSamples: 6,
	}
	allStats[k] = s
	return s
}

// SetRule states how cases are generated and what counts as non-trivial.
func (s *Stats) SetRule(r string) { s.mu.Lock(); s.rule = r; s.mu.Unlock() }

// SetExhaustive marks that the part enumerated a finite space completely.
func (s *Stats) SetExhaustive(b bool) { s.mu.Lock(); s.exhaustive = b; s.mu.Unlock() }

// SetExtra stores an additional key in the coverage object.
func (s *Stats) SetExtra(k string, v interface{}) { s.mu.Lock(); s.extra[k] = v; s.mu.Unlock() }

// AddExtra adds n to a numeric extra counter.
func (s *Stats) AddExtra(k string, n int64) {
	s.mu.Lock()
	if v, ok := s.extra[k].(int64); ok {
		s.extra[k] = v + n
	} else {
		s.extra[k] = n
	}
	s.mu.Unlock()
}

// Case counts one generated case. key identifies the case for distinctness;
// nontrivial says whether it satisfies the property's non-triviality rule.
func (s *Stats) Case(nontrivial bool, key []byte, classes ...string) {
	s.mu.Lock()
	defer s.mu.Unlock()
	s.evaluations++
	if nontrivial {
		h := sha256.Sum256(key)
		var k [8]byte
		copy(k[:], h[:8])
		s.nontrivial[k] = struct{}{}
	}
	for _, c := range classes {
		s.classes[c]++
	}
}

// Class bumps class counters without counting a case.
func (s *Stats) Class(classes ...string) {
	s.mu.Lock()
	for _, c := range classes {
		s.classes[c]++
	}
	s.mu.Unlock()
}

// ClassN adds n to a class counter.
func (s *Stats) ClassN(c string, n int64) {
	s.mu.Lock()
	s.classes[c] += n
	s.mu.Unlock()
}

// Sample keeps the first few cases verbatim.
func (s *Stats) Sample(v interface{}) {
	s.mu.Lock()
	defer s.mu.Unlock()
	if len(s.samples) >= s.maxSamples {
		return
	}
	b, err := json.Marshal(v)
	if err != nil {
		return
	}
	if len(b) > 4000 {
		b, _ = json.Marshal(map[string]interface{}{"truncated_case_prefix": string(b[:4000])})
	}
	s.samples = append(s.samples, b)
}

// WantSample reports whether another sample would still be kept.
func (s *Stats) WantSample() bool {
	s.mu.Lock()
	defer s.mu.Unlock()
	return len(s.samples) < s.maxSamples
}

// Excluded counts a case excluded by construction because of a known finding.
func (s *Stats) Excluded(n int64) { s.mu.Lock(); s.excluded += n; s.mu.Unlock() }

// Inconclusive records that the run could not reach a verdict (harness-side
// problem: no port, deadline without stability evidence, ...).
func (s *Stats) Inconclusive(msg string) {
	s.mu.Lock()
	if len(s.inconclusive) < 20 {
		s.inconclusive = append(s.inconclusive, msg)
	}
	s.mu.Unlock()
	s.Flush()
}

// Fail describes a property failure found by an executor.
type Fail struct {
	Fingerprint string
	Message     string
}

func (f *Fail) Error() string { return f.Fingerprint + ": " + f.Message }

// Failf builds a Fail.
func Failf(fp string, format string, args ...interface{}) *Fail {
	return &Fail{Fingerprint: fp, Message: fmt.Sprintf(format, args...)}
}

// Report records a failure together with its replay case. It returns true if
// the fingerprint is a listed known finding (the caller then continues).
func (s *Stats) Report(f *Fail, replayCase interface{}) (known bool) {
	known = IsKnown(s.Property, f.Fingerprint)
	if !known {
		fmt.Printf("VERIF-FINDING property=%s part=%s fingerprint=%s\n", s.Property, s.Part, f.Fingerprint)
	}
	s.mu.Lock()
	fd, ok := s.findings[f.Fingerprint]
	if !ok {
		fd = &Finding{Property: s.Property, Fingerprint: f.Fingerprint, Known: known}
		s.findings[f.Fingerprint] = fd
	}
	fd.Count++
	fd.Message = f.Message
	s.mu.Unlock()
	if !known && replayCase != nil {
		// always overwrite: rapid calls us with successively smaller cases,
		// the last one written is the minimal one.
		dir := os.Getenv("VERIF_REPLAY_DIR")
		if dir == "" {
			dir = os.TempDir()
		}
		_ = os.MkdirAll(dir, 0o755)
		name := fmt.Sprintf("%s-%s-%s.json", s.Property, s.Part, sanitize(f.Fingerprint))
		p := filepath.Join(dir, name)
		doc := map[string]interface{}{
			"property": s.Property, "part": s.Part, "fingerprint": f.Fingerprint,
			"message": f.Message, "case": replayCase,
		}
		if b, err := json.MarshalIndent(doc, "", " "); err == nil {
			_ = os.WriteFile(p, b, 0o644)
			s.mu.Lock()
			fd.Replay = p
			s.mu.Unlock()
		}
	}
	s.Flush()
	return known
}

func sanitize(x string) string {
	var b strings.Builder
	for _, r := range x {
		switch {
		case r >= 'a' && r <= 'z', r >= 'A' && r <= 'Z', r >= '0' && r <= '9', r == '-', r == '_', r == '.':
			b.WriteRune(r)
		default:
			b.WriteByte('_')
		}
	}
	out := b.String()
	if len(out) > 80 {
		h := sha256.Sum256([]byte(x))
		out = out[:60] + "_" + fmt.Sprintf("%x", h[:6])
	}
	return out
}

type statsDoc struct {
	Property     string                 `json:"property"`
	Part         string                 `json:"part"`
	Evaluations  int64                  `json:"evaluations"`
	Nontrivial   []string               `json:"nontrivial_hashes"`
	Classes      map[string]int64       `json:"classes"`
	Samples      []json.RawMessage      `json:"samples"`
	Findings     []*Finding             `json:"findings"`
	Excluded     int64                  `json:"excluded"`
	Inconclusive []string               `json:"inconclusive"`
	Extra        map[string]interface{} `json:"extra"`
	Exhaustive   bool                   `json:"exhaustive"`
	Rule         string                 `json:"rule"`
	WallS        float64                `json:"wall_s"`
}

// Flush writes the statistics of every part to $VERIF_STATS (a directory).
func (s *Stats) Flush() {
	dir := os.Getenv("VERIF_STATS")
	if dir == "" {
		return
	}
	s.mu.Lock()
	doc := statsDoc{
		Property: s.Property, Part: s.Part + os.Getenv("VERIF_PART_SUFFIX"), Evaluations: s.evaluations,
		Classes: map[string]int64{}, Samples: s.samples, Excluded: s.excluded,
		Inconclusive: append([]string{}, s.inconclusive...), Extra: map[string]interface{}{},
		Exhaustive: s.exhaustive, Rule: s.rule, WallS: time.Since(s.start).Seconds(),
	}
	for k, v := range s.classes {
		doc.Classes[k] = v
	}
	for k, v := range s.extra {
		doc.Extra[k] = v
	}
	// distinct non-trivial hashes are exported so that the driver can count
	// distinct cases across shards (capped to keep files small; the cap is
	// reported).
	const maxHashes = 200000
	i := 0
	for k := range s.nontrivial {
		if i >= maxHashes {
			break
		}
		doc.Nontrivial = append(doc.Nontrivial, strconv.FormatUint(binary.BigEndian.Uint64(k[:]), 16))
		i++
	}
	doc.Extra["distinct_nontrivial_in_part"] = int64(len(s.nontrivial))
	for _, f := range s.findings {
		c := *f
		doc.Findings = append(doc.Findings, &c)
	}
	s.mu.Unlock()
	sort.Slice(doc.Findings, func(i, j int) bool { return doc.Findings[i].Fingerprint < doc.Findings[j].Fingerprint })
	sort.Strings(doc.Nontrivial)
	b, err := json.Marshal(doc)
	if err != nil {
		return
	}
	_ = os.MkdirAll(dir, 0o755)
	shard := os.Getenv("VERIF_SHARD")
	if shard == "" {
		shard = "0"
	}
	tmp := filepath.Join(dir, fmt.Sprintf(".%s-%s-%s.tmp", s.Property, doc.Part, shard))
	final := filepath.Join(dir, fmt.Sprintf("%s-%s-%s.json", s.Property, doc.Part, shard))
	if os.WriteFile(tmp, b, 0o644) == nil {
		_ = os.Rename(tmp, final)
	}
}

// ---- known findings --------------------------------------------------------

var (
	knownOnce sync.Once
	knownSet  map[string]string // "C02 fingerprint" -> description
)

func loadKnown() {
	knownSet = map[string]string{}
	p := os.Getenv("VERIF_KNOWN")
	if p == "" {
		return
	}
	f, err := os.Open(p)
	if err != nil {
		return
	}
	defer f.Close()
	sc := bufio.NewScanner(f)
	for sc.Scan() {
		line := strings.TrimSpace(sc.Text())
		if !strings.HasPrefix(line, "known:") {
			continue
		}
		var prop, fp string
		fields := strings.Fields(strings.TrimPrefix(line, "known:"))
		rest := []string{}
		for _, fl := range fields {
			switch {
			case strings.HasPrefix(fl, "property="):
				prop = strings.TrimPrefix(fl, "property=")
			case strings.HasPrefix(fl, "fingerprint="):
				fp = strings.TrimPrefix(fl, "fingerprint=")
			default:
				rest = append(rest, fl)
			}
		}
		if prop != "" && fp != "" {
			knownSet[prop+" "+fp] = strings.Join(rest, " ")
		}
	}
}

// IsKnown reports whether (property, fingerprint) is listed as a known finding.
func IsKnown(property, fingerprint string) bool {
	knownOnce.Do(loadKnown)
	_, ok := knownSet[property+" "+fingerprint]
	return ok
}

// ---- environment -----------------------------------------------------------

// Tier returns "quick" or "thorough".
func Tier() string {
	if os.Getenv("VERIF_TIER") == "thorough" {
		return "thorough"
	}
	return "quick"
}

// Thorough reports whether the thorough tier is running.
func Thorough() bool { return Tier() == "thorough" }

// Shard returns this process's shard index and the number of shards.
func Shard() (int, int) {
	i, _ := strconv.Atoi(os.Getenv("VERIF_SHARD"))
	n, _ := strconv.Atoi(os.Getenv("VERIF_NSHARDS"))
	if n <= 0 {
		n = 1
	}
	return i, n
}

// EnvInt reads an integer environment variable with a default.
func EnvInt(name string, def int) int {
	if v, err := strconv.Atoi(os.Getenv(name)); err == nil {
		return v
	}
	return def
}

// Seed returns the effective seed of this shard (never 0).
func Seed() int64 {
	v, err := strconv.ParseInt(os.Getenv("VERIF_EFFECTIVE_SEED"), 10, 64)
	if err != nil || v == 0 {
		return 1
	}
	return v
}

// FlushAll flushes every stats object of the process.
func FlushAll() {
	statsMu.Lock()
	var l []*Stats
	for _, s := range allStats {
		l = append(l, s)
	}
	statsMu.Unlock()
	for _, s := range l {
		s.Flush()
	}
}

// KeepNote stores a diagnostic text under /verif/.scratch/notes (best effort): observations that are no
// violation but worth studying later.
func KeepNote(name, text string) {
	dir := os.Getenv("VERIF_NOTES_DIR")
	if dir == "" {
		dir = "/verif/.scratch/notes"
	}
	if os.MkdirAll(dir, 0o755) != nil {
		return
	}
	_ = os.WriteFile(fmt.Sprintf("%s/%s-%d-%d.txt", dir, name, os.Getpid(), time.Now().UnixNano()), []byte(text), 0o644)
}
