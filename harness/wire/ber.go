// Package wire is an independent BER / LDAPv3 codec written for the
// verification harness from X.690 and RFC 4511. It deliberately shares no code
// with gldap or with github.com/go-asn1-ber/asn1-ber (which gldap encodes and
// decodes through), so that an oracle built on it does not compare the
// implementation with itself.
package wire

import (
	"errors"
	"fmt"
)

// Class is the BER identifier class.
type Class byte

const (
	Universal   Class = 0
	Application Class = 1
	Context     Class = 2
	Private     Class = 3
)

// Universal tags used by LDAP.
const (
	TagBoolean     = 1
	TagInteger     = 2
	TagOctetString = 4
	TagNull        = 5
	TagEnumerated  = 10
	TagUTF8String  = 12
	TagSequence    = 16
	TagSet         = 17
	TagPrintable   = 19
	TagIA5String   = 22
	TagGeneral     = 27
)

// Node is one BER TLV.
type Node struct {
	Class       Class
	Constructed bool
	Tag         uint32
	Data        []byte  // content octets when primitive
	Children    []*Node // content when constructed
	// Inner, when non-nil on a primitive node, is BER wrapped inside the
	// content octets (control values): content = concatenation of Inner.
	Inner []*Node

	// LenOverride, when non-nil, replaces the length octets on encoding (used
	// by the mutation generators to corrupt lengths).
	LenOverride []byte
	// LongLen forces a (non-minimal but legal) long-form length with that many
	// length octets (0 = minimal encoding).
	LongLen int
}

func (n *Node) Clone() *Node {
	if n == nil {
		return nil
	}
	c := &Node{Class: n.Class, Constructed: n.Constructed, Tag: n.Tag, LongLen: n.LongLen}
	if n.Data != nil {
		c.Data = append([]byte{}, n.Data...)
	}
	if n.LenOverride != nil {
		c.LenOverride = append([]byte{}, n.LenOverride...)
	}
	for _, ch := range n.Children {
		c.Children = append(c.Children, ch.Clone())
	}
	for _, ch := range n.Inner {
		c.Inner = append(c.Inner, ch.Clone())
	}
	return c
}

func appendIdent(b []byte, cl Class, constructed bool, tag uint32) []byte {
	first := byte(cl) << 6
	if constructed {
		first |= 0x20
	}
	if tag < 31 {
		return append(b, first|byte(tag))
	}
	b = append(b, first|0x1f)
	var tmp [5]byte
	i := len(tmp)
	for {
		i--
		tmp[i] = byte(tag & 0x7f)
		tag >>= 7
		if tag == 0 {
			break
		}
	}
	for j := i; j < len(tmp); j++ {
		v := tmp[j]
		if j != len(tmp)-1 {
			v |= 0x80
		}
		b = append(b, v)
	}
	return b
}

func appendLen(b []byte, l int, long int) []byte {
	if long == 0 {
		if l < 128 {
			return append(b, byte(l))
		}
		long = 1
		for x := l >> 8; x > 0; x >>= 8 {
			long++
		}
	}
	b = append(b, 0x80|byte(long))
	for i := long - 1; i >= 0; i-- {
		b = append(b, byte(l>>(8*uint(i))))
	}
	return b
}

// Content returns the content octets.
func (n *Node) Content() []byte {
	if !n.Constructed {
		if n.Inner != nil {
			var c []byte
			for _, ch := range n.Inner {
				c = ch.AppendTo(c)
			}
			return c
		}
		return n.Data
	}
	var c []byte
	for _, ch := range n.Children {
		c = ch.AppendTo(c)
	}
	return c
}

// AppendTo appends the encoding of n to b.
func (n *Node) AppendTo(b []byte) []byte {
	content := n.Content()
	b = appendIdent(b, n.Class, n.Constructed, n.Tag)
	if n.LenOverride != nil {
		b = append(b, n.LenOverride...)
	} else {
		b = appendLen(b, len(content), n.LongLen)
	}
	return append(b, content...)
}

// Bytes returns the encoding of n.
func (n *Node) Bytes() []byte { return n.AppendTo(nil) }

// ---- constructors ----------------------------------------------------------

func Prim(cl Class, tag uint32, data []byte) *Node {
	if data == nil {
		data = []byte{}
	}
	return &Node{Class: cl, Tag: tag, Data: data}
}

func Cons(cl Class, tag uint32, children ...*Node) *Node {
	return &Node{Class: cl, Constructed: true, Tag: tag, Children: children}
}

func Seq(children ...*Node) *Node { return Cons(Universal, TagSequence, children...) }
func Set(children ...*Node) *Node { return Cons(Universal, TagSet, children...) }
func Octets(b []byte) *Node       { return Prim(Universal, TagOctetString, b) }
func Str(s string) *Node          { return Prim(Universal, TagOctetString, []byte(s)) }
func Null() *Node                 { return Prim(Universal, TagNull, nil) }

// IntBytes returns the minimal two's-complement big-endian encoding of v.
func IntBytes(v int64) []byte {
	n := 1
	for x := v; x > 127 || x < -128; x >>= 8 {
		n++
	}
	out := make([]byte, n)
	for i := n - 1; i >= 0; i-- {
		out[i] = byte(v)
		v >>= 8
	}
	return out
}

func Int(v int64) *Node  { return Prim(Universal, TagInteger, IntBytes(v)) }
func Enum(v int64) *Node { return Prim(Universal, TagEnumerated, IntBytes(v)) }
func Bool(v bool) *Node {
	if v {
		return Prim(Universal, TagBoolean, []byte{0xff})
	}
	return Prim(Universal, TagBoolean, []byte{0})
}

// ---- strict parsing --------------------------------------------------------

// ErrShort is returned when the buffer ends before the TLV is complete.
var ErrShort = errors.New("wire: short buffer")

// MaxDepth bounds nesting while parsing.
const MaxDepth = 64

// ParseOne strictly parses exactly one definite-length TLV from the start of
// b and returns it together with the number of bytes consumed. Indefinite
// lengths, lengths using more than 4 octets and trailing garbage inside
// constructed values are errors.
func ParseOne(b []byte) (*Node, int, error) {
	return parse(b, 0)
}

func parse(b []byte, depth int) (*Node, int, error) {
	if depth > MaxDepth {
		return nil, 0, errors.New("wire: nesting too deep")
	}
	if len(b) < 2 {
		return nil, 0, ErrShort
	}
	n := &Node{}
	first := b[0]
	n.Class = Class(first >> 6)
	n.Constructed = first&0x20 != 0
	pos := 1
	if first&0x1f == 0x1f {
		var tag uint32
		cnt := 0
		for {
			if pos >= len(b) {
				return nil, 0, ErrShort
			}
			c := b[pos]
			pos++
			cnt++
			if cnt > 4 {
				return nil, 0, errors.New("wire: tag number too large")
			}
			tag = tag<<7 | uint32(c&0x7f)
			if c&0x80 == 0 {
				break
			}
		}
		n.Tag = tag
	} else {
		n.Tag = uint32(first & 0x1f)
	}
	if pos >= len(b) {
		return nil, 0, ErrShort
	}
	lb := b[pos]
	pos++
	var l int
	switch {
	case lb < 0x80:
		l = int(lb)
	case lb == 0x80:
		return nil, 0, errors.New("wire: indefinite length not allowed")
	case lb == 0xff:
		return nil, 0, errors.New("wire: reserved length octet 0xff")
	default:
		k := int(lb & 0x7f)
		if k > 4 {
			return nil, 0, fmt.Errorf("wire: %d length octets", k)
		}
		if pos+k > len(b) {
			return nil, 0, ErrShort
		}
		for i := 0; i < k; i++ {
			l = l<<8 | int(b[pos+i])
		}
		pos += k
	}
	if l > len(b)-pos {
		return nil, 0, ErrShort
	}
	content := b[pos : pos+l]
	if n.Constructed {
		off := 0
		for off < len(content) {
			ch, used, err := parse(content[off:], depth+1)
			if err != nil {
				if errors.Is(err, ErrShort) {
					return nil, 0, errors.New("wire: child overruns its parent")
				}
				return nil, 0, err
			}
			n.Children = append(n.Children, ch)
			off += used
		}
	} else {
		n.Data = append([]byte{}, content...)
	}
	return n, pos + l, nil
}

// ParseInt decodes INTEGER / ENUMERATED content octets strictly.
func ParseInt(data []byte) (int64, error) {
	if len(data) == 0 {
		return 0, errors.New("wire: empty integer")
	}
	if len(data) > 8 {
		return 0, errors.New("wire: integer too long")
	}
	var v int64
	if data[0]&0x80 != 0 {
		v = -1
	}
	for _, c := range data {
		v = v<<8 | int64(c)
	}
	return v, nil
}

// Is reports whether n has the given identifier.
func (n *Node) Is(cl Class, constructed bool, tag uint32) bool {
	return n != nil && n.Class == cl && n.Constructed == constructed && n.Tag == tag
}

func (n *Node) String() string {
	if n == nil {
		return "<nil>"
	}
	if n.Constructed {
		s := fmt.Sprintf("[%d:%d]{", n.Class, n.Tag)
		for i, c := range n.Children {
			if i > 0 {
				s += ","
			}
			s += c.String()
		}
		return s + "}"
	}
	if len(n.Data) > 24 {
		return fmt.Sprintf("[%d:%d]%x…(%d)", n.Class, n.Tag, n.Data[:24], len(n.Data))
	}
	return fmt.Sprintf("[%d:%d]%x", n.Class, n.Tag, n.Data)
}

// Stream incrementally splits a byte stream into TLVs.
type Stream struct {
	buf []byte
	// Consumed counts bytes of complete frames handed out so far.
	Consumed int
}

// Feed appends received bytes.
func (s *Stream) Feed(b []byte) { s.buf = append(s.buf, b...) }

// Pending returns the number of buffered bytes not yet part of a full frame.
func (s *Stream) Pending() int { return len(s.buf) }

// Next returns the next complete frame, or ok=false when more bytes are
// needed. A non-nil error means the stream is not a sequence of TLVs.
func (s *Stream) Next() (n *Node, raw []byte, ok bool, err error) {
	if len(s.buf) == 0 {
		return nil, nil, false, nil
	}
	n, used, err := ParseOne(s.buf)
	if err != nil {
		if errors.Is(err, ErrShort) {
			return nil, nil, false, nil
		}
		return nil, nil, false, err
	}
	raw = append([]byte{}, s.buf[:used]...)
	s.buf = s.buf[used:]
	s.Consumed += used
	return n, raw, true, nil
}
