package wire

import (
	"errors"
	"fmt"
)

// LDAP application tags (RFC 4511).
const (
	AppBindRequest           = 0
	AppBindResponse          = 1
	AppUnbindRequest         = 2
	AppSearchRequest         = 3
	AppSearchEntry           = 4
	AppSearchDone            = 5
	AppModifyRequest         = 6
	AppModifyResponse        = 7
	AppAddRequest            = 8
	AppAddResponse           = 9
	AppDelRequest            = 10
	AppDelResponse           = 11
	AppModifyDNRequest       = 12
	AppModifyDNResponse      = 13
	AppCompareRequest        = 14
	AppCompareResponse       = 15
	AppAbandonRequest        = 16
	AppSearchReference       = 19
	AppExtendedRequest       = 23
	AppExtendedResponse      = 24
	AppIntermediateResp      = 25
	ResultUnwillingToPerform = 53
)

// Control OIDs.
const (
	OIDPaging        = "1.2.840.113556.1.4.319"
	OIDBehera        = "1.3.6.1.4.1.42.2.27.8.5.1"
	OIDVChuMustChg   = "2.16.840.1.113730.3.4.4"
	OIDVChuWarning   = "2.16.840.1.113730.3.4.5"
	OIDManageDsaIT   = "2.16.840.1.113730.3.4.2"
	OIDMSNotify      = "1.2.840.113556.1.4.528"
	OIDMSShowDeleted = "1.2.840.113556.1.4.417"
	OIDMSServerLink  = "1.2.840.113556.1.4.2309"
	OIDStartTLS      = "1.3.6.1.4.1.1466.20037"
)

// Control is the wire form of an LDAP control.
type Control struct {
	OID      string `json:"oid"`
	Crit     bool   `json:"crit,omitempty"`
	HasValue bool   `json:"has_value,omitempty"`
	Value    []byte `json:"value,omitempty"`
	// EmitCritFalse encodes "criticality FALSE" explicitly (legal BER, not DER).
	EmitCritFalse bool `json:"emit_crit_false,omitempty"`
}

func (c Control) Node() *Node {
	n := Seq(Str(c.OID))
	if c.Crit {
		n.Children = append(n.Children, Bool(true))
	} else if c.EmitCritFalse {
		n.Children = append(n.Children, Bool(false))
	}
	if c.HasValue {
		n.Children = append(n.Children, Octets(c.Value))
	}
	return n
}

// ControlsNode builds the [0] Controls element.
func ControlsNode(cs []Control) *Node {
	n := Cons(Context, 0)
	for _, c := range cs {
		n.Children = append(n.Children, c.Node())
	}
	return n
}

// PagingValue builds the RFC 2696 control value.
func PagingValue(size uint32, cookie []byte) []byte {
	return Seq(Int(int64(size)), Octets(cookie)).Bytes()
}

// Behera warning/error value builders (draft-behera-ldap-password-policy-10).
func BeheraExpireValue(sec int64) []byte {
	return Seq(Cons(Context, 0, Prim(Context, 0, IntBytes(sec)))).Bytes()
}

func BeheraGraceValue(n int64) []byte {
	return Seq(Cons(Context, 0, Prim(Context, 1, IntBytes(n)))).Bytes()
}

func BeheraErrorValue(code int64) []byte {
	return Seq(Prim(Context, 1, IntBytes(code))).Bytes()
}

// Attr is an attribute with values.
type Attr struct {
	Type []byte   `json:"type"`
	Vals [][]byte `json:"vals"`
}

func (a Attr) Node() *Node {
	set := Set()
	for _, v := range a.Vals {
		set.Children = append(set.Children, Octets(v))
	}
	return Seq(Octets(a.Type), set)
}

// Change is one modification of a ModifyRequest.
type Change struct {
	Op   int64    `json:"op"`
	Type []byte   `json:"type"`
	Vals [][]byte `json:"vals"`
}

// Req is a typed LDAP request handed to the independent encoder.
type Req struct {
	Kind  string `json:"kind"` // bind search modify add delete extended unbind raw
	MsgID int64  `json:"msgid"`

	// bind
	Version  int64  `json:"version,omitempty"`
	DN       []byte `json:"dn,omitempty"` // bind name, search base, modify/add/delete DN
	Password []byte `json:"password,omitempty"`
	// SASL turns the bind into a SASL bind ([3] constructed) - "unsupported"
	SASL bool `json:"sasl,omitempty"`

	// search
	Scope     int64    `json:"scope,omitempty"`
	Deref     int64    `json:"deref,omitempty"`
	SizeLimit int64    `json:"size,omitempty"`
	TimeLimit int64    `json:"time,omitempty"`
	TypesOnly bool     `json:"types_only,omitempty"`
	Filter    []byte   `json:"filter,omitempty"`     // BER of the filter
	FilterStr string   `json:"filter_str,omitempty"` // its string form (informational)
	Attrs     [][]byte `json:"attrs,omitempty"`

	// modify
	Changes []Change `json:"changes,omitempty"`
	// add
	AddAttrs []Attr `json:"add_attrs,omitempty"`

	// extended
	ExtName     []byte `json:"ext_name,omitempty"`
	ExtValue    []byte `json:"ext_value,omitempty"`
	HasExtValue bool   `json:"has_ext_value,omitempty"`

	// raw (unsupported operation): application tag + content
	RawTag         uint32 `json:"raw_tag,omitempty"`
	RawConstructed bool   `json:"raw_constructed,omitempty"`
	RawContent     []byte `json:"raw_content,omitempty"`

	Controls []Control `json:"controls,omitempty"`
	// RawControls, when non-nil, replaces Controls: each element is the
	// complete encoding of one control SEQUENCE (produced by another encoder).
	RawControls [][]byte `json:"raw_controls,omitempty"`
	// LongLen forces long-form lengths on the envelope and op (legal BER).
	LongLen int `json:"long_len,omitempty"`
}

// OpNode builds the protocolOp element.
func (r *Req) OpNode() *Node {
	switch r.Kind {
	case "bind":
		auth := Prim(Context, 0, r.Password)
		if r.SASL {
			auth = Cons(Context, 3, Str("PLAIN"), Octets(r.Password))
		}
		return Cons(Application, AppBindRequest, Int(r.Version), Octets(r.DN), auth)
	case "unbind":
		return Prim(Application, AppUnbindRequest, nil)
	case "search":
		attrs := Seq()
		for _, a := range r.Attrs {
			attrs.Children = append(attrs.Children, Octets(a))
		}
		var filter *Node
		if f, _, err := ParseOne(r.Filter); err == nil {
			filter = f
		} else {
			filter = Prim(Context, 7, []byte("objectClass"))
		}
		return Cons(Application, AppSearchRequest, Octets(r.DN), Enum(r.Scope), Enum(r.Deref),
			Int(r.SizeLimit), Int(r.TimeLimit), Bool(r.TypesOnly), filter, attrs)
	case "modify":
		changes := Seq()
		for _, c := range r.Changes {
			changes.Children = append(changes.Children, Seq(Enum(c.Op), Attr{Type: c.Type, Vals: c.Vals}.Node()))
		}
		return Cons(Application, AppModifyRequest, Octets(r.DN), changes)
	case "add":
		attrs := Seq()
		for _, a := range r.AddAttrs {
			attrs.Children = append(attrs.Children, a.Node())
		}
		return Cons(Application, AppAddRequest, Octets(r.DN), attrs)
	case "delete":
		return Prim(Application, AppDelRequest, r.DN)
	case "extended":
		n := Cons(Application, AppExtendedRequest, Prim(Context, 0, r.ExtName))
		if r.HasExtValue {
			n.Children = append(n.Children, Prim(Context, 1, r.ExtValue))
		}
		return n
	case "raw":
		if r.RawConstructed {
			n := Cons(Application, r.RawTag)
			rest := r.RawContent
			for len(rest) > 0 {
				ch, used, err := ParseOne(rest)
				if err != nil {
					break
				}
				n.Children = append(n.Children, ch)
				rest = rest[used:]
			}
			return n
		}
		return Prim(Application, r.RawTag, r.RawContent)
	}
	panic("wire: unknown request kind " + r.Kind)
}

// Node builds the whole LDAPMessage.
func (r *Req) Node() *Node {
	op := r.OpNode()
	op.LongLen = r.LongLen
	env := Seq(Int(r.MsgID), op)
	env.LongLen = r.LongLen
	if r.RawControls != nil {
		cn := Cons(Context, 0)
		for _, rc := range r.RawControls {
			if n, _, err := ParseOne(rc); err == nil {
				cn.Children = append(cn.Children, n)
			}
		}
		env.Children = append(env.Children, cn)
	} else if len(r.Controls) > 0 {
		env.Children = append(env.Children, ControlsNode(r.Controls))
	}
	return env
}

// Encode returns the bytes of the LDAPMessage.
func (r *Req) Encode() []byte { return r.Node().Bytes() }

// ---- strict response parsing -----------------------------------------------

// Message is a strictly parsed LDAPMessage received from the server.
type Message struct {
	ID          int64
	OpTag       uint32
	Op          *Node
	HasControls bool
	Controls    []Control
	Raw         []byte
}

// Result is an LDAPResult.
type Result struct {
	Code      int64
	MatchedDN []byte
	Diag      []byte
	Rest      []*Node
}

// Entry is a SearchResultEntry.
type Entry struct {
	DN    []byte
	Attrs []Attr
}

// ParseMessage checks the LDAPMessage envelope strictly.
func ParseMessage(n *Node) (*Message, error) {
	if !n.Is(Universal, true, TagSequence) {
		return nil, fmt.Errorf("envelope is not a universal SEQUENCE: %s", n)
	}
	if len(n.Children) < 2 || len(n.Children) > 3 {
		return nil, fmt.Errorf("envelope has %d elements", len(n.Children))
	}
	idn := n.Children[0]
	if !idn.Is(Universal, false, TagInteger) {
		return nil, fmt.Errorf("messageID is not an INTEGER: %s", idn)
	}
	id, err := ParseInt(idn.Data)
	if err != nil {
		return nil, fmt.Errorf("messageID: %w", err)
	}
	if id < 0 || id > 2147483647 {
		return nil, fmt.Errorf("messageID %d out of range", id)
	}
	op := n.Children[1]
	if op.Class != Application {
		return nil, fmt.Errorf("protocolOp is not application class: %s", op)
	}
	m := &Message{ID: id, OpTag: op.Tag, Op: op}
	if len(n.Children) == 3 {
		cn := n.Children[2]
		if !cn.Is(Context, true, 0) {
			return nil, fmt.Errorf("third element is not [0] Controls: %s", cn)
		}
		m.HasControls = true
		for i, c := range cn.Children {
			ctl, err := ParseControl(c)
			if err != nil {
				return nil, fmt.Errorf("control %d: %w", i, err)
			}
			m.Controls = append(m.Controls, ctl)
		}
	}
	return m, nil
}

// ParseControl strictly parses SEQUENCE { OID, BOOLEAN DEFAULT FALSE, OCTET STRING OPTIONAL }.
func ParseControl(c *Node) (Control, error) {
	var out Control
	if !c.Is(Universal, true, TagSequence) {
		return out, fmt.Errorf("control is not a SEQUENCE: %s", c)
	}
	if len(c.Children) < 1 || len(c.Children) > 3 {
		return out, fmt.Errorf("control has %d elements", len(c.Children))
	}
	if !c.Children[0].Is(Universal, false, TagOctetString) {
		return out, fmt.Errorf("controlType is not an OCTET STRING: %s", c.Children[0])
	}
	out.OID = string(c.Children[0].Data)
	rest := c.Children[1:]
	if len(rest) > 0 && rest[0].Is(Universal, false, TagBoolean) {
		if len(rest[0].Data) != 1 {
			return out, errors.New("criticality BOOLEAN must have one content octet")
		}
		out.Crit = rest[0].Data[0] != 0
		out.EmitCritFalse = !out.Crit
		rest = rest[1:]
	}
	if len(rest) > 0 {
		if !rest[0].Is(Universal, false, TagOctetString) {
			return out, fmt.Errorf("controlValue is not an OCTET STRING: %s", rest[0])
		}
		out.HasValue = true
		out.Value = rest[0].Data
		rest = rest[1:]
	}
	if len(rest) != 0 {
		return out, errors.New("unexpected trailing element in control")
	}
	return out, nil
}

// Result parses the protocolOp as LDAPResult (any response but entries).
func (m *Message) Result() (*Result, error) {
	op := m.Op
	if !op.Constructed {
		return nil, fmt.Errorf("response op is primitive: %s", op)
	}
	if len(op.Children) < 3 {
		return nil, fmt.Errorf("LDAPResult has %d elements", len(op.Children))
	}
	if !op.Children[0].Is(Universal, false, TagEnumerated) {
		return nil, fmt.Errorf("resultCode is not ENUMERATED: %s", op.Children[0])
	}
	code, err := ParseInt(op.Children[0].Data)
	if err != nil {
		return nil, err
	}
	if !op.Children[1].Is(Universal, false, TagOctetString) {
		return nil, fmt.Errorf("matchedDN is not an OCTET STRING: %s", op.Children[1])
	}
	if !op.Children[2].Is(Universal, false, TagOctetString) {
		return nil, fmt.Errorf("diagnosticMessage is not an OCTET STRING: %s", op.Children[2])
	}
	r := &Result{Code: code, MatchedDN: op.Children[1].Data, Diag: op.Children[2].Data, Rest: op.Children[3:]}
	for _, x := range r.Rest {
		if x.Class != Context {
			return nil, fmt.Errorf("unexpected element after LDAPResult: %s", x)
		}
	}
	return r, nil
}

// Entry parses the protocolOp as SearchResultEntry.
func (m *Message) Entry() (*Entry, error) {
	op := m.Op
	if m.OpTag != AppSearchEntry || !op.Constructed || len(op.Children) != 2 {
		return nil, fmt.Errorf("not a SearchResultEntry: %s", op)
	}
	if !op.Children[0].Is(Universal, false, TagOctetString) {
		return nil, fmt.Errorf("objectName is not an OCTET STRING")
	}
	e := &Entry{DN: op.Children[0].Data}
	al := op.Children[1]
	if !al.Is(Universal, true, TagSequence) {
		return nil, fmt.Errorf("attributes is not a SEQUENCE: %s", al)
	}
	for _, a := range al.Children {
		if !a.Is(Universal, true, TagSequence) || len(a.Children) != 2 {
			return nil, fmt.Errorf("PartialAttribute malformed: %s", a)
		}
		if !a.Children[0].Is(Universal, false, TagOctetString) {
			return nil, fmt.Errorf("attribute type is not an OCTET STRING")
		}
		if !a.Children[1].Is(Universal, true, TagSet) {
			return nil, fmt.Errorf("attribute vals is not a SET: %s", a.Children[1])
		}
		at := Attr{Type: a.Children[0].Data, Vals: [][]byte{}}
		for _, v := range a.Children[1].Children {
			if !v.Is(Universal, false, TagOctetString) {
				return nil, fmt.Errorf("attribute value is not an OCTET STRING: %s", v)
			}
			at.Vals = append(at.Vals, v.Data)
		}
		e.Attrs = append(e.Attrs, at)
	}
	return e, nil
}

// ResponseTagFor maps a request application tag to its final-response tag.
func ResponseTagFor(reqTag uint32) (uint32, bool) {
	switch reqTag {
	case AppBindRequest:
		return AppBindResponse, true
	case AppSearchRequest:
		return AppSearchDone, true
	case AppModifyRequest:
		return AppModifyResponse, true
	case AppAddRequest:
		return AppAddResponse, true
	case AppDelRequest:
		return AppDelResponse, true
	case AppModifyDNRequest:
		return AppModifyDNResponse, true
	case AppCompareRequest:
		return AppCompareResponse, true
	case AppExtendedRequest:
		return AppExtendedResponse, true
	}
	return 0, false
}
