package wire

import "bytes"

// Mutation is one single-point shape/type mutation of a BER tree.
type Mutation struct {
	Path []int  `json:"path"` // child indices from the root
	Op   string `json:"op"`   // replace delete dup swap trunc extend len ident content
	Arg  int    `json:"arg"`
}

// Aliens is the table of "alien" node kinds a node can be replaced by.
func Aliens() []*Node {
	nine := bytes.Repeat([]byte{0x01}, 9)
	return []*Node{
		Int(5), Prim(Universal, TagInteger, nine), Prim(Universal, TagInteger, nil), Int(-1), Int(3),
		Bool(true), Prim(Universal, TagBoolean, nil), Prim(Universal, TagBoolean, []byte{1, 2}),
		Enum(1), Prim(Universal, TagEnumerated, nil), Enum(9),
		Null(),
		Octets(nil), Str("abc"), Octets(Seq(Int(1), Str("x")).Bytes()),
		Prim(Universal, TagUTF8String, []byte("x")), Prim(Universal, TagPrintable, []byte("x")),
		Prim(Universal, TagIA5String, []byte("x")), Prim(Universal, TagGeneral, []byte("x")),
		Seq(), Seq(Int(1)), Seq(Str("a"), Str("b")), Seq(Seq()),
		Set(), Set(Str("a")),
		Prim(Context, 0, nil), Prim(Context, 0, []byte("abc")), Prim(Context, 1, []byte{1}), Prim(Context, 7, []byte("cn")),
		Cons(Context, 0), Cons(Context, 0, Int(1)), Cons(Context, 3, Str("a")), Cons(Context, 0, Cons(Context, 0)),
		Cons(Context, 3), Prim(Context, 3, nil), Prim(Context, 3, []byte("x")), Cons(Context, 3, Cons(Context, 3)),
		Cons(Application, 0), Prim(Application, 2, nil), Prim(Application, 10, []byte("x")), Cons(Application, 3, Str("a")),
		Cons(Universal, TagOctetString, Str("a")),
		Prim(Context, 31, []byte("x")), Cons(Context, 1000), Prim(Private, 1, []byte("x")), Cons(Private, 2, Int(1)),
	}
}

func kids(n *Node) *[]*Node {
	if n.Constructed {
		return &n.Children
	}
	if n.Inner != nil {
		return &n.Inner
	}
	return nil
}

func at(root *Node, path []int) (parent *Node, idx int, n *Node) {
	n = root
	idx = -1
	for _, i := range path {
		k := kids(n)
		if k == nil || i >= len(*k) {
			return nil, -1, nil
		}
		parent, idx, n = n, i, (*k)[i]
	}
	return parent, idx, n
}

// lenVariants returns the corrupted length octets for a node whose true content length is l.
func lenVariants(l int) [][]byte {
	out := [][]byte{
		{0}, {0x80}, {0xff},
		append([]byte{0x89}, bytes.Repeat([]byte{1}, 9)...),
		{0x84, 0xff, 0xff, 0xff, 0xff},
		{0x84, 0x7f, 0xff, 0xff, 0xff},
	}
	if l+1 < 128 {
		out = append(out, []byte{byte(l + 1)})
	}
	if l > 0 && l-1 < 128 {
		out = append(out, []byte{byte(l - 1)})
	}
	if l < 256 {
		out = append(out, []byte{0x81, byte(l)}, []byte{0x82, 0, byte(l)})
	}
	return out
}

var contentVariants = [][]byte{{}, {0}, {0xff}, {0x80}, bytes.Repeat([]byte{0x7f}, 9), {1, 2, 3}}

// Enumerate lists every single-point mutation of the tree. full=false keeps
// the reduced operator set used for the second point of double mutants.
func Enumerate(root *Node, full bool) []Mutation {
	var out []Mutation
	nAliens := len(Aliens())
	var walk func(n *Node, path []int)
	walk = func(n *Node, path []int) {
		p := append([]int{}, path...)
		if len(path) > 0 {
			for a := 0; a < nAliens; a++ {
				if !full && a%3 != 0 {
					continue
				}
				out = append(out, Mutation{Path: p, Op: "replace", Arg: a})
			}
			out = append(out, Mutation{Path: p, Op: "delete"})
			if full {
				out = append(out, Mutation{Path: p, Op: "dup"}, Mutation{Path: p, Op: "swap"})
			}
		}
		if full {
			for i := range lenVariants(len(n.Content())) {
				out = append(out, Mutation{Path: p, Op: "len", Arg: i})
			}
			for i := 0; i < 5; i++ {
				out = append(out, Mutation{Path: p, Op: "ident", Arg: i})
			}
		}
		k := kids(n)
		if k == nil {
			if full {
				for i := range contentVariants {
					out = append(out, Mutation{Path: p, Op: "content", Arg: i})
				}
			}
			return
		}
		for l := 0; l < len(*k); l++ {
			out = append(out, Mutation{Path: p, Op: "trunc", Arg: l})
		}
		for a := 0; a < 4; a++ {
			out = append(out, Mutation{Path: p, Op: "extend", Arg: a})
		}
		for i, ch := range *k {
			walk(ch, append(path, i))
		}
	}
	walk(root, nil)
	return out
}

// Apply returns a mutated clone of root, or nil if the mutation does not apply.
func Apply(root *Node, m Mutation) *Node {
	r := root.Clone()
	parent, idx, n := at(r, m.Path)
	if n == nil {
		return nil
	}
	switch m.Op {
	case "replace":
		al := Aliens()
		if parent == nil || m.Arg >= len(al) {
			return nil
		}
		(*kids(parent))[idx] = al[m.Arg]
	case "delete":
		if parent == nil {
			return nil
		}
		k := kids(parent)
		*k = append((*k)[:idx:idx], (*k)[idx+1:]...)
	case "dup":
		if parent == nil {
			return nil
		}
		k := kids(parent)
		nk := append([]*Node{}, (*k)[:idx+1]...)
		nk = append(nk, n.Clone())
		nk = append(nk, (*k)[idx+1:]...)
		*k = nk
	case "swap":
		if parent == nil {
			return nil
		}
		k := kids(parent)
		if idx+1 >= len(*k) {
			return nil
		}
		(*k)[idx], (*k)[idx+1] = (*k)[idx+1], (*k)[idx]
	case "trunc":
		k := kids(n)
		if k == nil || m.Arg >= len(*k) {
			return nil
		}
		*k = (*k)[:m.Arg]
		if !n.Constructed && len(*k) == 0 {
			n.Inner = []*Node{}
		}
	case "extend":
		k := kids(n)
		if k == nil {
			return nil
		}
		extra := [][]*Node{{Str("x")}, {Int(1)}, {Seq()}, {Str("x"), Bool(true), Str("y"), Int(7)}}
		if m.Arg >= len(extra) {
			return nil
		}
		*k = append(*k, extra[m.Arg]...)
	case "len":
		v := lenVariants(len(n.Content()))
		if m.Arg >= len(v) {
			return nil
		}
		n.LenOverride = v[m.Arg]
	case "ident":
		switch m.Arg {
		case 0: // flip constructed bit keeping the content bytes
			c := n.Content()
			n.Constructed = !n.Constructed
			if n.Constructed {
				// content bytes are re-parsed as children where possible
				n.Children = nil
				rest := c
				for len(rest) > 0 {
					ch, used, err := ParseOne(rest)
					if err != nil {
						n.Children = append(n.Children, &Node{Class: Universal, Tag: TagOctetString, Data: rest})
						break
					}
					n.Children = append(n.Children, ch)
					rest = rest[used:]
				}
			} else {
				n.Data, n.Children, n.Inner = c, nil, nil
			}
		case 1:
			n.Class = (n.Class + 1) % 4
		case 2:
			n.Class = (n.Class + 2) % 4
		case 3:
			n.Tag++
		case 4:
			n.Tag = 31 + n.Tag
		default:
			return nil
		}
	case "content":
		if kids(n) != nil || m.Arg >= len(contentVariants) {
			return nil
		}
		n.Data = contentVariants[m.Arg]
	default:
		return nil
	}
	return r
}

// ExposeInner rewrites, in an LDAPMessage tree, every control value whose
// content is itself BER so that the wrapped elements become mutable Inner
// nodes. It returns the same tree.
func ExposeInner(env *Node) *Node {
	if env == nil || len(env.Children) < 3 {
		return env
	}
	for _, ctl := range env.Children[2].Children {
		for _, ch := range ctl.Children {
			if !ch.Is(Universal, false, TagOctetString) || len(ch.Data) == 0 {
				continue
			}
			var inner []*Node
			rest := ch.Data
			ok := true
			for len(rest) > 0 {
				n, used, err := ParseOne(rest)
				if err != nil {
					ok = false
					break
				}
				inner = append(inner, n)
				rest = rest[used:]
			}
			if ok && len(inner) > 0 && inner[0].Constructed {
				ch.Inner = inner
				ch.Data = nil
			}
		}
	}
	return env
}
